"""Orchestration core for the model-based checks (stdlib only).

A check = exhaustive TLC runs on the bounded design model + driver runs against
the real code built from /repo's working tree + TLC trace validation of the
recorded behaviours.  Verdicts come only from real-code behaviour:
  exit 0  property held on everything explored
  exit 1  VIOLATION (a trace recorded from the implementation is rejected)
  exit 2  the check itself is broken (timeout, dead driver, model error, ...)
"""
import json, os, re, shutil, subprocess, sys, tempfile, time

VERIF = os.path.dirname(os.path.dirname(os.path.abspath(__file__)))
REPO = os.environ.get("VERIF_REPO", "/repo")
SPEC = os.path.join(VERIF, "spec")
HARNESS = os.path.join(VERIF, "harness")
REPLAYS = os.environ.get("VERIF_REPLAY_DIR") or os.path.join(VERIF, "replays")
GOENV = dict(GOFLAGS="-mod=mod", GOPROXY="off", GOSUMDB="off", GOTOOLCHAIN="local")
NCPU = os.cpu_count() or 4


class Broken(Exception):
    pass


def log(*a):
    print(*a, file=sys.stderr, flush=True)


def known_findings():
    p = os.path.join(VERIF, "known_findings.json")
    if not os.path.exists(p):
        return {"findings": [], "fixed": []}
    return json.load(open(p))


class Ctx:
    def __init__(self, pid, tier, seed, level="model_checking", keep=False):
        self.pid, self.tier, self.seed, self.level = pid, tier, seed, level
        self.t0 = time.time()
        self.scratch = tempfile.mkdtemp(prefix="verif-%s-" % pid)
        self.keep = keep
        self.cov = {"states": 0, "transitions": 0, "traces_validated_against_impl": 0,
                    "samples": [], "steps": []}
        self.assumptions = []
        self.violations = []   # (what, replay_path)
        self.known = []
        self.n = 0
        self._drv = {}

    # ---------------------------------------------------------------- builds
    def env(self, extra=None):
        e = dict(os.environ)
        e.update(GOENV)
        e["TMPDIR"] = os.path.join(self.scratch, "tmp")
        os.makedirs(e["TMPDIR"], exist_ok=True)
        if extra:
            e.update(extra)
        return e

    def build(self, cmd="drv", race=False, tags="test verif"):
        key = (cmd, race, tags)
        if key in self._drv:
            return self._drv[key]
        out = os.path.join(self.scratch, cmd + ("-race" if race else "") + "-" + tags.replace(" ", "_"))
        args = ["go", "build", "-tags", tags, "-o", out]
        if os.path.abspath(REPO) == "/repo":
            shutil.copyfile(os.path.join(REPO, "go.sum"), os.path.join(HARNESS, "go.sum"))
        else:
            # another tree (self-tests on a scratch worktree): an alternative go.mod with the replace redirected
            mf = os.path.join(self.scratch, "alt.mod")
            txt = open(os.path.join(HARNESS, "go.mod")).read().replace("=> /repo", "=> " + os.path.abspath(REPO))
            open(mf, "w").write(txt)
            shutil.copyfile(os.path.join(HARNESS, "go.sum"), os.path.join(self.scratch, "alt.sum"))
            args += ["-modfile", mf]
        if race:
            args.append("-race")
        args.append("./cmd/" + cmd)
        t = time.time()
        r = subprocess.run(args, cwd=HARNESS, env=self.env(), capture_output=True, text=True)
        if r.returncode != 0:
            raise Broken("harness build failed (the tree under %s does not compile with -tags %r):\n%s"
                         % (REPO, tags, r.stderr[-4000:]))
        self.step("build", cmd=cmd, race=race, tags=tags, wall_s=round(time.time() - t, 1))
        self._drv[key] = out
        return out

    def step(self, kind, **kw):
        kw["kind"] = kind
        self.cov["steps"].append(kw)

    # ------------------------------------------------------------------ TLC
    def _tlc(self, module, cfg_text, files, workers, timeout, extra_args=(), jvm=()):
        self.n += 1
        d = os.path.join(self.scratch, "tlc%d" % self.n)
        os.makedirs(d)
        for f in os.listdir(SPEC):
            if f.endswith(".tla"):
                shutil.copyfile(os.path.join(SPEC, f), os.path.join(d, f))
        for name, src in files.items():
            if os.path.abspath(src) != os.path.abspath(os.path.join(d, name)):
                shutil.copyfile(src, os.path.join(d, name))
        open(os.path.join(d, "run.cfg"), "w").write(cfg_text)
        for k, v in (getattr(self, "module_subst", None) or {}).items():
            mp = os.path.join(d, module + ".tla")
            txt = open(mp).read()
            a, b = "(* @%s@ *)" % k, "(* @/%s@ *)" % k
            if a not in txt or b not in txt:
                raise Broken("module %s has no markers for %s" % (module, k))
            txt = txt[:txt.index(a) + len(a)] + " " + str(v) + " " + txt[txt.index(b):]
            open(mp, "w").write(txt)
        heap = os.environ.get("VERIF_TLC_HEAP", "12g")
        cmd = ["java", "-XX:+UseParallelGC", "-Xmx" + heap, "-Xss64m", *jvm,
               "-cp", "/opt/veriftools/tla/tla2tools.jar:/opt/veriftools/tla/CommunityModules-deps.jar",
               "tlc2.TLC", "-workers", str(workers), "-metadir", os.path.join(d, "md"),
               "-config", "run.cfg", *extra_args, module + ".tla"]
        t = time.time()
        try:
            r = subprocess.run(cmd, cwd=d, capture_output=True, text=True, timeout=timeout)
        except subprocess.TimeoutExpired:
            raise Broken("TLC timed out after %ds on %s" % (timeout, module))
        out = r.stdout + r.stderr
        open(os.path.join(d, "tlc.out"), "w").write(out)
        res = {"dir": d, "out": out, "rc": r.returncode, "wall_s": round(time.time() - t, 1)}
        m = re.search(r"(\d[\d,]*) states generated, (\d[\d,]*) distinct states found", out)
        if m:
            res["generated"] = int(m.group(1).replace(",", ""))
            res["distinct"] = int(m.group(2).replace(",", ""))
        m = re.search(r"depth of the complete state graph search is (\d+)", out)
        if m:
            res["depth"] = int(m.group(1))
        res["errors"] = [l for l in out.splitlines() if l.startswith("Error:")]
        shutil.rmtree(os.path.join(d, "md"), ignore_errors=True)
        return res

    def simulate(self, module, cfgname, subst=None, num=100, depth=60, timeout=300, note=""):
        """Behaviours generated by TLC's simulator from a Gen_* module that prints each behaviour's operation
        history as <<"GEN", json>>; returns the path of a file with one JSON array per line (duplicates removed)."""
        res = self._tlc(module, self.cfg(cfgname, subst), {}, 1, timeout,
                        extra_args=("-simulate", "num=%d" % num, "-depth", str(depth), "-seed", str(self.seed)))
        seen, out = set(), []
        for line in res["out"].splitlines():
            m = re.match(r'<<"GEN", (".*")>>\s*$', line)
            if not m:
                continue
            js = json.loads(m.group(1))
            if js not in seen:
                seen.add(js)
                out.append(js)
        fatal = [e for e in res["errors"]]
        if fatal or not out:
            raise Broken("TLC simulation of %s produced no behaviours or failed:\n%s" % (module, "\n".join(res["out"].splitlines()[-30:])))
        path = os.path.join(self.scratch, "gen-%s-%d.jsonl" % (module, self.n))
        open(path, "w").write("\n".join(out) + "\n")
        self.step("tlc-simulate", module=module, cfg=cfgname, subst=subst or {}, behaviours=len(out), depth=depth, wall_s=res["wall_s"], note=note)
        self.cov.setdefault("behaviours_generated_by_tlc", 0)
        self.cov["behaviours_generated_by_tlc"] += len(out)
        return path

    def cfg(self, name, subst=None):
        text = open(os.path.join(SPEC, name)).read()
        for k, v in (subst or {}).items():
            text = text.replace("@%s@" % k, str(v))
        if re.search(r"@[A-Za-z_]+@", text):
            raise Broken("unsubstituted placeholder in %s" % name)
        return text

    def mc(self, module, cfgname, subst=None, workers=None, timeout=900, expect_ok=True, note=""):
        """Exhaustive model checking of the bounded design model."""
        res = self._tlc(module, self.cfg(cfgname, subst), {}, workers or NCPU, timeout)
        ok = "generated" in res and not res["errors"] and \
            "Model checking completed. No error has been found." in res["out"]
        self.step("tlc-mc", module=module, cfg=cfgname, subst=subst or {}, ok=ok,
                  generated=res.get("generated"), distinct=res.get("distinct"), depth=res.get("depth"),
                  wall_s=res["wall_s"], note=note)
        if ok:
            self.cov["states"] += res["distinct"]
            self.cov["transitions"] += res["generated"]
        elif expect_ok:
            tail = "\n".join(res["out"].splitlines()[-40:])
            raise Broken("model checking of %s/%s did not complete cleanly (a counterexample of the design "
                         "model is not a verdict about the code):\n%s" % (module, cfgname, tail))
        return ok, res

    def apalache(self, module, args, timeout=600, lemmas=1, note=""):
        """Symbolic check with Apalache (supporting evidence about the specification)."""
        self.n += 1
        d = os.path.join(self.scratch, "apa%d" % self.n)
        os.makedirs(d)
        for f in os.listdir(SPEC):
            if f.endswith(".tla"):
                shutil.copyfile(os.path.join(SPEC, f), os.path.join(d, f))
        t = time.time()
        try:
            r = subprocess.run(["apalache-mc", "check", *args, "--out-dir=" + os.path.join(d, "out"), module + ".tla"],
                               cwd=d, capture_output=True, text=True, timeout=timeout)
        except subprocess.TimeoutExpired:
            raise Broken("apalache timed out on %s" % module)
        ok = "The outcome is: NoError" in r.stdout
        self.step("apalache", module=module, args=list(args), ok=ok, wall_s=round(time.time() - t, 1), note=note)
        self.cov["obligations"] = self.cov.get("obligations", 0) + lemmas
        if ok:
            self.cov["discharged"] = self.cov.get("discharged", 0) + lemmas
        else:
            raise Broken("apalache did not discharge %s:\n%s" % (module, r.stdout[-3000:]))
        shutil.rmtree(os.path.join(d, "out"), ignore_errors=True)
        return ok

    def run_tool(self, cmd, tags, args=(), timeout=60):
        exe = self.build(cmd, tags=tags)
        r = subprocess.run([exe, *args], env=self.env(), capture_output=True, text=True, timeout=timeout)
        if r.returncode != 0:
            raise Broken("%s failed: %s" % (cmd, r.stderr[-2000:]))
        return r.stdout

    # -------------------------------------------------------------- drivers
    def drv(self, family, args=(), race=False, timeout=150, tags="test verif", extra_env=None, crash_violation=False, seed=None):
        exe = self.build("drv", race=race, tags=tags)
        self.n += 1
        d = os.path.join(self.scratch, "drv%d" % self.n)
        os.makedirs(d)
        trace = os.path.join(d, "trace.ndjson")
        summ = os.path.join(d, "summary.json")
        root = os.path.join(d, "root")
        os.makedirs(root)
        cmd = [exe, family, "--seed", str(self.seed if seed is None else seed), "--tier", self.tier, "--out", trace,
               "--summary", summ, "--root", root, *args]
        t = time.time()
        try:
            r = subprocess.run(cmd, cwd=d, env=self.env(extra_env), capture_output=True, text=True, timeout=timeout)
        except subprocess.TimeoutExpired:
            raise Broken("driver %s timed out after %ds" % (family, timeout))
        finally:
            shutil.rmtree(root, ignore_errors=True)
            shutil.rmtree(os.path.join(self.scratch, "tmp"), ignore_errors=True)
        open(os.path.join(d, "drv.out"), "w").write(r.stdout + r.stderr)
        res = {"dir": d, "trace": trace, "rc": r.returncode, "stdout": r.stdout, "stderr": r.stderr,
               "wall_s": round(time.time() - t, 1), "summary": {}}
        if os.path.exists(summ):
            res["summary"] = json.load(open(summ))
        return res

    def drv_ok(self, family, args=(), **kw):
        race = kw.get("race", False)
        res = self.drv(family, args, **kw)
        res["partial"] = False
        if res["rc"] in (3, 4, 5) and os.path.exists(res["trace"]) and os.path.getsize(res["trace"]) > 0:
            # the driver ran out of time; what it recorded is still a behaviour of the
            # real code: it is validated, and only if it is accepted the check is broken
            lines = open(res["trace"]).read().split("\n")
            if lines and not lines[-1].endswith("}"):
                lines = lines[:-1]
            open(res["trace"], "w").write("\n".join(l for l in lines if l) + "\n")
            res["partial"] = True
            why = "ran out of time" if res["rc"] == 4 else "stopped a runaway start-up" if res["rc"] == 5 else "gave up: " + (res["stderr"].strip().splitlines() or ["?"])[-1][:300]
            self.partial = "driver %s %s (the partial trace was validated and accepted)" % (family, why)
            self.step("drv", family=family, args=list(args), wall_s=res["wall_s"], partial=True)
            return res
        if res["rc"] != 0 and kw.get("crash_violation") and ("panic:" in res["stderr"] or "fatal error:" in res["stderr"]) \
                and "gca-backend/" in res["stderr"] and "verifharness/hx.must" not in res["stderr"]:
            # a goroutine of the code under test panicked and took the driver process down:
            # that is an observation of the real code, not a harness failure
            first = [l for l in res["stderr"].splitlines() if l.startswith("panic:") or l.startswith("fatal error:")]
            self.violation("the process died while the driver %s was running: %s" % (family, (first or ["?"])[0]),
                           files={"trace.ndjson": res["trace"], "drv.out": os.path.join(res["dir"], "drv.out")})
            res["crashed"] = True
            return res
        if race and "WARNING: DATA RACE" in res["stderr"]:
            # reports of the race detector on a replayed schedule; reports whose accesses are all in the
            # harness's own code are a harness bug, not a verdict
            blocks = res["stderr"].split("WARNING: DATA RACE")[1:]
            real = []
            for b in blocks:
                tops = re.findall(r"(?:Read|Write|Previous read|Previous write) at [^\n]*\n\s+([^\n]+)", b)
                if tops and all("gca-backend/" in t and "verifharness" not in t for t in tops):
                    real.append(b[:3000])
            if real:
                rp = os.path.join(res["dir"], "race.txt")
                open(rp, "w").write("\n=====\n".join(real))
                self.violation("the race detector reports %d data race(s) in gca-backend on a replayed schedule: %s"
                               % (len(real), " / ".join(re.findall(r"gca-backend/[^\n(]+", real[0])[:2])),
                               files={"race.txt": rp, "trace.ndjson": res["trace"]})
                res["raced"] = True
            elif res["rc"] == 66:
                raise Broken("the race detector reports races in the harness itself:\n" + blocks[0][:2000])
            if res["rc"] == 66:
                res["rc"] = 0
        if res["rc"] != 0:
            raise Broken("driver %s exited %d:\n%s" % (family, res["rc"], res["stderr"][-3000:]))
        s = res["summary"]
        self.step("drv", family=family, args=list(args), wall_s=res["wall_s"],
                  events=s.get("events"), counts=s.get("counts"))
        for smp in s.get("samples", [])[:6]:
            if len(self.cov["samples"]) < 10:
                self.cov["samples"].append(trim(smp))
        return res

    # ----------------------------------------------------- trace validation
    def validate(self, module, cfgname, trace, subst=None, timeout=900, what="", queue_dfs=False):
        """Validate a recorded trace; returns True when fully accepted.  A rejection
        that matches a listed known finding is reported as such, its scenario is
        cut out and the rest is validated; anything else is a violation."""
        subst = dict(subst or {})
        subst.setdefault("DiagLine", 0)
        lines = open(trace).read().splitlines()
        findings = [f for f in known_findings()["findings"] if f["property"] == self.pid]
        scen_total = sum(1 for x in lines if '"a":"Reset"' in x) or 1
        cut = 0
        while True:
            tf = os.path.join(self.scratch, "trace-%d.ndjson" % self.n)
            open(tf, "w").write("\n".join(lines) + "\n")
            jvm = ("-Dtlc2.tool.queue.IStateQueue=StateDeque",) if queue_dfs else ()
            res = self._tlc(module, self.cfg(cfgname, subst), {"trace.ndjson": tf}, 1, timeout, jvm=jvm)
            total = len(lines)
            depth = res.get("depth", 0)
            fatal = [e for e in res["errors"] if "Postcondition" not in e]
            inv = [e for e in res["errors"] if "Invariant" in e or "Action property" in e or "Temporal" in e]
            accepted = (not res["errors"]) and depth - 1 == total and \
                "Model checking completed. No error has been found." in res["out"]
            self.step("tlc-trace", module=module, cfg=cfgname, events=total, matched=max(depth - 1, 0),
                      accepted=accepted, wall_s=res["wall_s"], what=what)
            if accepted:
                self.cov["traces_validated_against_impl"] += scen_total - cut
                self.cov.setdefault("events_validated", 0)
                self.cov["events_validated"] += total
                return True
            if fatal and not inv:
                tail = "\n".join(res["out"].splitlines()[-40:])
                raise Broken("trace validation failed to run (%s):\n%s" % (module, tail))
            # rejected at line `bad` (1-based), or an invariant failed in the state after it
            if inv:
                m = re.findall(r"/\\ l = (\d+)", res["out"])
                bad = int(m[-1]) - 1 if m else depth
            else:
                bad = depth
            bad = max(1, min(bad, total))
            ev = json.loads(lines[bad - 1])
            scn = ev.get("scn", "")
            why = inv[0] if inv else "trace rejected by the specification"
            desc = "%s at event %d (%s) of scenario %s" % (why, bad, ev.get("a"), scn)
            hit = None
            for f in findings:
                if scn.startswith(f["scenario"]) and (f.get("action") in (None, ev.get("a"))):
                    hit = f
                    break
            if hit is None:
                # diagnosis run: print expected vs. actual for the rejected line
                diag = ""
                if not inv:
                    s2 = dict(subst)
                    s2["DiagLine"] = bad
                    r2 = self._tlc(module, self.cfg(cfgname, s2), {"trace.ndjson": tf}, 1, timeout)
                    diag = "\n".join(l for l in r2["out"].splitlines() if "DIAG" in l or l.startswith("   "))[:20000]
                else:
                    diag = "\n".join(res["out"].splitlines()[-80:])
                rp = self.save_replay(tf, lines, bad, desc, diag, module, cfgname, subst)
                self.violations.append((desc, rp))
                return False
            self.known.append("%s: %s" % (hit["id"], hit["what"]))
            # cut the scenario out and continue with the rest
            lo = bad - 1
            while lo > 0 and '"a":"Reset"' not in lines[lo]:
                lo -= 1
            hi = bad
            while hi < len(lines) and '"a":"Reset"' not in lines[hi]:
                hi += 1
            lines = lines[:lo] + lines[hi:]
            cut += 1
            if not lines:
                return True

    def save_replay(self, tf, lines, bad, desc, diag, module, cfgname, subst):
        d = os.path.join(REPLAYS, self.pid, time.strftime("%Y%m%d-%H%M%S") + "-%d" % os.getpid())
        os.makedirs(d, exist_ok=True)
        # keep the scenario containing the rejected line
        lo = bad - 1
        while lo > 0 and '"a":"Reset"' not in lines[lo]:
            lo -= 1
        hi = bad
        while hi < len(lines) and '"a":"Reset"' not in lines[hi]:
            hi += 1
        open(os.path.join(d, "trace.ndjson"), "w").write("\n".join(lines[lo:hi]) + "\n")
        json.dump({"property": self.pid, "what": desc, "rejected_line_in_scenario": bad - lo,
                   "module": module, "cfg": cfgname, "subst": subst, "seed": self.seed, "tier": self.tier},
                  open(os.path.join(d, "replay.json"), "w"), indent=1)
        open(os.path.join(d, "diagnosis.txt"), "w").write(desc + "\n\n" + diag + "\n")
        return d

    def violation(self, desc, files=None, data=None):
        d = os.path.join(REPLAYS, self.pid, time.strftime("%Y%m%d-%H%M%S") + "-%d-%d" % (os.getpid(), len(self.violations)))
        os.makedirs(d, exist_ok=True)
        for name, src in (files or {}).items():
            if os.path.exists(src):
                shutil.copyfile(src, os.path.join(d, name))
        json.dump({"property": self.pid, "what": desc, "seed": self.seed, "tier": self.tier, "data": data},
                  open(os.path.join(d, "replay.json"), "w"), indent=1)
        self.violations.append((desc, d))

    # ------------------------------------------------------------- evidence
    def finish(self, broken=None):
        wall = round(time.time() - self.t0, 1)
        ev = {"property_id": self.pid, "tier": self.tier, "seed": self.seed, "level": self.level,
              "coverage": self.cov, "assumptions": self.assumptions, "wall_s": wall,
              "violations": len(self.violations)}
        if self.known:
            ev["coverage"]["known_findings_observed"] = sorted(set(self.known))
        if broken:
            ev["coverage"]["broken"] = str(broken)[:2000]
        if not self.cov["samples"]:
            self.cov["samples"].append({"note": "no sample recorded"})
        if self.cov["states"] == 0 or self.cov["transitions"] == 0:
            # no exhaustive run in this check: fall back to the generic keys
            self.cov["evaluations"] = max(1, self.cov.get("events_validated", 0))
            self.cov["distinct_nontrivial"] = max(0, self.cov["traces_validated_against_impl"])
        evdir = os.environ.get("VERIF_EVIDENCE_DIR") or os.path.join(VERIF, "evidence")
        os.makedirs(evdir, exist_ok=True)
        json.dump(ev, open(os.path.join(evdir, self.pid + ".json"), "w"), indent=1)
        if not self.keep:
            shutil.rmtree(self.scratch, ignore_errors=True)
        for k in sorted(set(self.known)):
            print("KNOWN-FINDING: property=%s %s" % (self.pid, k))
        if broken:
            log("BROKEN check %s: %s" % (self.pid, broken))
            return 2
        if getattr(self, "partial", None) and not self.violations:
            log("BROKEN check %s: %s" % (self.pid, self.partial))
            return 2
        if self.violations:
            for what, rp in self.violations:
                log("violation: " + what)
                print("VIOLATION property=%s replay=%s" % (self.pid, rp))
            return 1
        print("OK property=%s tier=%s seed=%d states=%d transitions=%d traces=%d wall=%.1fs" % (
            self.pid, self.tier, self.seed, self.cov["states"], self.cov["transitions"],
            self.cov["traces_validated_against_impl"], wall))
        return 0


def trim(x, n=600):
    s = json.dumps(x)
    if len(s) <= n:
        return x
    if isinstance(x, dict):
        y = {}
        for k, v in x.items():
            if k == "post":
                y[k] = "<projected state, %d bytes>" % len(json.dumps(v))
            else:
                y[k] = v
        return y
    return s[:n] + "..."
