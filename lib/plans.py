"""Per-property check plans: which exhaustive models, which driver families and
which trace specifications decide each property."""

QUICK = "quick"


def c02(cx):
    cx.assumptions += [
        "signatures are abstracted (Dolev-Yao): validity is decided from the harness's record of who signed what",
        "capacities used in strict traces are below 2^23 so that cap*135 is exact in TLC's 32-bit integers; "
        "the uint64 overflow of capacity*135 for capacities above 2^64/135 is outside the model",
    ]
    cx.mc("MC_Slot", "MC_Slot.cfg", {"MaxSeen": 3 if cx.tier == QUICK else 4},
          note="all report sequences over 2 devices x 2 slots x 8 values x 4 signature variants")
    r = cx.drv_ok("slot")
    cx.validate("Trace_Server", "Trace_C02.cfg", r["trace"], what="slot rule, exhaustive short sequences + random permutations")


PLANS = {"C02": c02}


def replay(cx, path):
    """Re-validate a stored violation: the recorded scenario against the trace specification."""
    import json, os
    meta = json.load(open(os.path.join(path, "replay.json")))
    if "module" not in meta:
        raise __import__("core").Broken("this replay has no trace to re-validate: " + meta.get("what", ""))
    subst = dict(meta.get("subst") or {})
    subst["DiagLine"] = 0
    cx.validate(meta["module"], meta["cfg"], os.path.join(path, "trace.ndjson"), subst, what="replay")
