"""Per-property check plans: which exhaustive models, which driver families and
which trace specifications decide each property."""

QUICK = "quick"


def c02(cx):
    cx.assumptions += [
        "signatures are abstracted (Dolev-Yao): validity is decided from the harness's record of who signed what",
        "capacities used in strict traces are below 2^23 so that cap*135 is exact in TLC's 32-bit integers; "
        "the uint64 overflow of capacity*135 for capacities above 2^64/135 is outside the model",
    ]
    cx.mc("MC_Slot", "MC_Slot.cfg", {"MaxSeen": 3 if cx.tier == QUICK else 4},
          note="all report sequences over 2 devices x 2 slots x 8 values x 4 signature variants")
    r = cx.drv_ok("slot")
    cx.validate("Trace_Server", "Trace_C02.cfg", r["trace"], what="slot rule, exhaustive short sequences + random permutations")


def c01(cx):
    cx.assumptions += [
        "signatures are abstracted (Dolev-Yao); that no other byte string verifies is cryptography and is assumed",
        "timeslots and clocks in traces stay below 2^30 (TLC integers); the uint32 extremes are C20's subject",
    ]
    q = cx.tier == QUICK
    cx.mc("MC_Accept", "MC_Accept.cfg", {"Defects": "{}", "MaxNow": 12 if q else 16, "MaxReports": 1 if q else 2},
          note="datagram alphabet relative to (now, offset): ts boundaries x 5 values x 5 signers x ok/not, 3 ids; "
               "clock jumps 1/week/window, lagging rotation, restart with catch-up")
    r = cx.drv_ok("accept")
    cx.validate("Trace_Server", "Trace_C01.cfg", r["trace"],
                what="mutation menu of datagrams at 7 (now, offset) configurations incl. held rotation and start-up catch-up")


def c06(cx):
    cx.assumptions += ["signatures abstract (ground truth from the harness's signing record)",
                       "NaN latitude/longitude cannot travel through JSON and are outside the property (finite values only)"]
    q = cx.tier == QUICK
    cx.mc("MC_Equip", "MC_Equip.cfg", {"Defects": "{}", "MaxAuths": 3 if q else 4, "MaxReports": 1},
          timeout=1500,
          note="3 ids x 2 keys x 2 capacities x 12 signature variants, 12 registration variants, reports, restarts")
    r = cx.drv_ok("equip", ["--only", "seq"])
    cx.validate("Trace_Server", "Trace_C06.cfg", r["trace"],
                what="authorization sequences (all of length <=2, directed, random) with reports and restarts through the JSON endpoint; "
                     "CheckInvariants and /equipment after every step; finite float classes")


def c07(cx):
    cx.assumptions += ["signatures abstract (ground truth from the harness's signing record)"]
    q = cx.tier == QUICK
    cx.mc("MC_Equip", "MC_Equip.cfg", {"Defects": "{}", "MaxAuths": 2 if q else 3, "MaxReports": 1},
          note="registration attempts by temp/gca/outsider for two candidate keys interleaved with authorizations and restarts")
    r = cx.drv_ok("equip", ["--only", "reg"])
    cx.validate("Trace_Server", "Trace_C07.cfg", r["trace"],
                what="registration attempts (wrong signer, altered key, replay, after restart, concurrent batches) and who is honoured afterwards")


def c03(cx):
    cx.assumptions += ["signatures abstract; the statistics signature is checked with the implementation's verifier over the harness's "
                       "reference encoding of the record (server key read from server.keys)",
                       "impact rates are opaque bit patterns taken from the trace (test build derives them from the wall clock)"]
    q = cx.tier == QUICK
    cx.mc("MC_Rotate", "MC_Rotate.cfg", {"Defects": "{}", "MaxNow": 8 if q else 10, "MaxReports": 1 if q else 2},
          note="2 devices, reports, ban, clock jumps 1/week/window+1/5 weeks, background rotation and catch-up, restarts, "
               "queries for every week class with/without insert_false_negatives; RotationExact asserted pointwise")
    r = cx.drv_ok("rotate", ["--only", "directed"])
    cx.validate("Trace_Server", "Trace_C03.cfg", r["trace"], what="directed history + dense archived week")
    r = cx.drv_ok("rotate", ["--only", "random"])
    cx.validate("Trace_Server", "Trace_C03.cfg", r["trace"], what="random histories")
    r = cx.drv_ok("conc", ["--only", "impactrot"], crash_violation=True)
    if not r.get("crashed"):
        cx.validate("Trace_Server", "Trace_C13.cfg", r["trace"],
                    what="a rotation held inside a round of the impact collector (yield point between its device list and a store), "
                         "two further rotations: every impact rate is stored for, and archived at, the timeslot it was fetched for")


def c04(cx):
    cx.assumptions += ["signatures abstract", "authorized-server list and migration orders are not persisted (excluded by the property)",
                       "live impact rates are volatile: start-up resets them (compared only once archived)"]
    q = cx.tier == QUICK
    cx.mc("MC_Rotate", "MC_Persist.cfg", {"Defects": "{}", "MaxNow": 8 if q else 10, "MaxReports": 1 if q else 2, },
          note="RestartEquiv / StartAlwaysOK evaluated in every state of the rotation model (a restart is possible after every prefix)")
    cx.mc("MC_Equip", "MC_Persist_Equip.cfg", {"Defects": "{}", "MaxAuths": 3, "MaxReports": 1 if q else 2},
          note="RestartEquiv / StartAlwaysOK in every state of the equipment model (conflicts, reused keys, banned ids with reports)")
    r = cx.drv_ok("rotate", ["--only", "everyrestart"])
    cx.validate("Trace_Server", "Trace_C04.cfg", r["trace"], what="restart (once or twice) after every operation")
    r = cx.drv_ok("rotate", ["--only", "random"])
    cx.validate("Trace_Server", "Trace_C04.cfg", r["trace"], what="random histories with restarts needing 0/1/several catch-up rotations")
    r = cx.drv_ok("equip", ["--only", "seq"])
    cx.validate("Trace_Server", "Trace_C04.cfg", r["trace"], what="authorization/ban sequences with restarts")


def c18(cx):
    import json
    cx.assumptions += ["time values are rank-encoded (order preserving) from the nanosecond clock the logger itself read (hook inside ExpireLogs)",
                       "lines are drawn from a two-letter alphabet with lengths 0..2x the line limit"]
    q = cx.tier == QUICK
    for mb in (1, 6, 8):
        cx.mc("MC_EventLog", "MC_EventLog.cfg", {"MaxBytes": mb, "Defects": "{}", "MaxTime": 4, "MaxOps": 5 if q else 6},
              note="all histories of Printf/ExpireLogs/Dump over 10 lines, non-decreasing clock; NewestKept and "
                   "EvictOldestFirstMinimal asserted inside Printf")
    r = cx.drv_ok("eventlog")
    for f in r["summary"]["files"]:
        first = json.loads(open(f).readline())
        if not cx.validate("Trace_EventLog", "Trace_EventLog.cfg", f,
                           {"MaxBytes": first["max"], "MaxLine": first["maxline"]},
                           what="real EventLogger, max=%d line=%d" % (first["max"], first["maxline"])):
            break


def c19(cx):
    import json
    cx.assumptions += ["window bound judged for half-open windows (a - rate, a]: the reading under which the limiter's strict After is exact",
                       "times are rank-encoded from the limiter's own clock reading taken under its mutex; the caller's before/after readings must bracket it"]
    q = cx.tier == QUICK
    for lim, rate in ((1, 1), (2, 3), (3, 4)) if q else ((1, 1), (1, 3), (2, 2), (2, 3), (3, 4), (3, 2)):
        cx.mc("MC_RateLimiter", "MC_RateLimiter.cfg", {"Limit": lim, "Rate": rate, "Defects": "{}", "MaxTime": 10, "MaxCalls": 8 if q else 10},
              note="all non-decreasing arrival sequences; DecisionMatchesHistory asserted against the unpruned history")
    r = cx.drv_ok("ratelimit")
    for f in r["summary"]["files"]:
        first = json.loads(open(f).readline())
        if not cx.validate("Trace_RateLimiter", "Trace_RateLimiter.cfg", f, {"Limit": first["limit"]},
                           what="real RateLimiter, limit=%d, windows x 1..64 goroutines x 3 arrival patterns" % first["limit"]):
            break


def c20(cx):
    import json, os
    cx.assumptions += ["the acceptance decision at the uint32 extremes is read from the server's own log line (out of bounds timeslot)",
                       "the rotation trigger, acceptance half-width and window length are read from the source type-checked under the "
                       "production build configuration (go/types constant values of the comparisons in launchMigrateReports / "
                       "managedHandleEquipmentReport and the array length of equipmentReports); the rotation period comes from the production binary",
                       "TimeslotToUnix is exact only up to slot 14316557 (uint32 product), the bound the property names"]
    q = cx.tier == QUICK
    prod = json.loads(cx.run_tool("prodconsts", "verif"))
    period = -(-prod["server"]["ReportMigrationFrequencyMs"] // 300000)
    # the trigger, the half-width and the window length are literals (or build-specific constants) of the code:
    # they are read from the source type-checked under the production build configuration
    core = __import__("core")
    kx = json.loads(cx.run_tool("constx", "verif", ["-repo", core.REPO, "-tags", "verif"]))
    def one(func, ops, need=""):
        c = [x for x in kx["comparisons"] if x["func"] == func and x["op"] in ops and need in x["text"]
             and len(x["consts"]) == 1 and x["side"] == [1]]
        if len(c) != 1:
            raise core.Broken("cannot identify the comparison (%s, %s) in the production source: %r" % (func, ops, c))
        return c[0]["consts"][0] - (1 if c[0]["op"] == ">=" else 0), c[0]["text"]
    trigger, ttext = one("launchMigrateReports", (">", ">="))
    halfw, htext = one("managedHandleEquipmentReport", (">", ">="), "now")
    window = kx.get("equipmentReports_len")
    if not window or kx.get("ReportMigrationFrequency_ms") != prod["server"]["ReportMigrationFrequencyMs"]:
        raise core.Broken("production constants: source and binary disagree: %r" % kx)
    cx.step("constx", trigger=trigger, trigger_expr=ttext, halfwidth=halfw, halfwidth_expr=htext, window=window, period_slots=period)
    for sl in (3, 5) if q else (3, 5, 7, 16):
        cx.mc("MC_Timeslot", "MC_Timeslot.cfg", {"SlotLen": sl, "TDefects": "{}"},
              workers=4, note="toy word 2^8: all unix times, all (now, timeslot) pairs; 65536 window comparisons")
    cx.apalache("Apa_Timeslot", ["--cinit=CInit", "--init=Init", "--next=Next", "--inv=Lemmas", "--length=0"], lemmas=5,
                note="round trip, monotonicity, refusal before genesis, exactness below the overflow bound and window correctness "
                     "for ALL values at Word=2^32, SlotLen=300, genesis=1700352000 (symbolic, unbounded integers)")
    cx.cov["checker_cmd"] = "apalache-mc check --cinit=CInit --init=Init --next=Next --inv=Lemmas --length=0 Apa_Timeslot.tla"
    cx.cov["trusted_base"] = ["Apalache 0.58.0 + z3", "TLC 1.8.0", "Timeslot.tla as a faithful transcription (bound by the sampled conformance run)"]
    r = cx.drv_ok("timeslot")
    ev = {"a": "Prod", "genesis": prod["genesis"], "current": prod["current"],
          "slot_before": (prod["unix_before"] - 1700352000) // 300, "slot_after": (prod["unix_after"] - 1700352000) // 300,
          "trigger": trigger, "period": period, "halfw": halfw, "window": window, "scn": "production-build", "seq": 0}
    with open(r["trace"], "a") as f:
        f.write(json.dumps(ev) + "\n")
    cx.cov["samples"].append(ev)
    cx.validate("Trace_Timeslot", "Trace_Timeslot.cfg", r["trace"],
                what="real UnixToTimeslot/TimeslotToUnix sampled by stride and randomly; handler decisions at uint32 extremes; production constants")


def c16(cx):
    cx.assumptions += ["readings in strict comparisons are dyadic rationals n/2^k (k<=3, |n|<2^19) and calibrations are integers, so that Go's float64 "
                       "arithmetic is exact and equals the specification's integer arithmetic; NaN/Inf/overflow/zero divider: crash-freedom only",
                       "negative float -> uint64 conversion wraps as on amd64 (implementation-defined in Go; only amd64 is observable here)"]
    q = cx.tier == QUICK
    cx.mc("MC_Energy", "MC_Energy.cfg", {"EDefects": "{}", "MaxRows": 2 if q else 3},
          note="all files of <=2/3 rows over 4 field counts x 5 timestamp classes x 5 reading classes, 4 calibrations")
    r = cx.drv_ok("energy")
    cx.validate("Trace_Energy", "Trace_Energy.cfg", r["trace"],
                what="abstract files rendered to CSV spellings (header variants, quoted fields, CRLF, wrong column counts, scientific notation) "
                     "parsed by the real reader; all calibration files of <=3 lines over 8 line classes")


def c09(cx):
    cx.assumptions += ["the energy file parse itself is C16's subject: here the rows are well formed and the abstract records are what that rule gives",
                       "datagrams are captured at the client's send hook (before the UDP write); the device's own signature is judged with the verifier",
                       "readings that do not fit 32 signed bits are stored truncated (documented in the code): they appear with fit=false and are "
                       "only emitted once in these histories (retransmission of such a reading is the known finding listed under C08)"]
    q = cx.tier == QUICK
    cx.mc("MC_History", "MC_History.cfg", {"MaxEdits": 2 if q else 3, "Unfit": "FALSE"},
          note="file rewrites over 3 slots x 5 values (<=2 records), loop iterations, restarts and retransmissions anywhere; origin 2 so slot 1 is out of range")
    r = cx.drv_ok("history")
    cx.validate("HistoryStore", "HistoryStore.cfg", r["trace"] + ".store",
                what="real history store on a grid of timeslots (before/at origin, +2^30-1, +2^30, +2^31, 2^32-1) x values, every grid key re-read after every save")
    cx.validate("Trace_Client", "Trace_C09.cfg", r["trace"],
                what="report loop single-stepped over evolving energy files (append, rewrite, duplicate with other value, reorder, drop) with restarts")
    r = cx.drv_ok("recover")
    cx.validate("Trace_System", "Trace_System.cfg", r["trace"] + ".sys", {"AllValues": "TRUE"},
                what="originals and retransmissions through a lossy relay and real sync rounds: all datagrams of a timeslot identical")
    r = cx.drv_ok("recover", ["--only", "unfit"])
    cx.validate("Trace_System", "Trace_System.cfg", r["trace"] + ".sys", {"AllValues": "TRUE"},
                what="the same with readings outside 32 signed bits (known finding C09-int32-truncation)")


def c10(cx):
    cx.assumptions += ["signatures abstract: harness-made signatures from its signing record; the genuine server signature of each fetched reply is "
                       "registered after one check with the verifier, tampered copies are then judged from the record",
                       "the genuine bytes are fetched by the harness and replayed to the client's parser through a harness TCP endpoint "
                       "(the direct client<->server exchange is exercised by C08)"]
    q = cx.tier == QUICK
    cx.mc("MC_SyncReply", "MC_SyncReply.cfg", {"CDefects": "{}"}, workers=4,
          note="every abstract reply over lengths x device keys x 7 migration variants x 0..2 server entries x signers x freshness: "
               "the operational checks accept exactly the authentic replies")
    cx.mc("MC_Rotate", "MC_SyncBits.cfg", {"MaxNow": 8, "MaxReports": 1 if q else 2},
          note="SyncBitsOK in every state of the rotation model: bit i <=> record held for offset+i, banned ids refused")
    r = cx.drv_ok("syncparse")
    cx.validate("Trace_Server", "Trace_C10.cfg", r["trace"], what="real replies decoded with the reference decoder vs. the server model")
    cx.validate("Trace_Sync", "Trace_Sync.cfg", r["trace"] + ".parse",
                what="real client parser on genuine replies, every single-bit flip, truncations, extensions, re-signings, rogue-signed variants")


def c11(cx):
    cx.assumptions += ["servers are harness TCP endpoints with their own keys (a rogue authorized server = an endpoint signing arbitrary replies with its real key)",
                       "a hanging server is modelled with a bounded delay (400 ms); the client has no read deadline, an endpoint that never answers keeps "
                       "that one sync goroutine waiting while the report loop goes on (checked by the loop probe)"]
    q = cx.tier == QUICK
    cx.mc("MC_ClientSrv", "MC_ClientSrv.cfg", {"CDefects": "{}", "MaxRounds": 2 if q else 3, "Conc": 2},
          note="1..3 servers, every banned subset, every pick order and failure pattern over <=5 attempts, replies with lists and "
               "migration orders, restarts, TWO OVERLAPPING ROUNDS interleaved in every way (a round waiting for a slow server "
               "while the loop starts the next); NeverSelectBanned asserted at every pick, LockFreeWhenIdle, BannedMonotone")
    ok, _ = cx.mc("MC_ClientSrv", "MC_ClientSrv.cfg", {"CDefects": '{"frozenbans"}', "MaxRounds": 2, "Conc": 2}, expect_ok=False,
                  note="non-vacuity: reading the ban flags once per round (deviation frozenbans) is refuted by NeverSelectBanned")
    if ok:
        raise __import__("core").Broken("MC_ClientSrv no longer refutes the deviation 'frozenbans': NeverSelectBanned is vacuous")
    cx.mc("MC_SyncReply", "MC_SyncReply.cfg", {"CDefects": "{}"}, workers=4, note="no reply shape reaches the parser's PANIC outcome")
    lockcfg(cx, ["client", "glow"], violate_pkgs=("client", "glow"))
    r = cx.drv_ok("rounds", ["--only", "fault"])
    cx.validate("Trace_Round", "Trace_Round.cfg", r["trace"],
                what="sync rounds against endpoints that refuse / reset / answer short / hang / sign wrongly / answer as rogue servers "
                     "(short, garbage list, unsigned entry, bad migration, random bytes, empty), all-banned and all-failed configurations; "
                     "lock probe and report-loop probe after every round; unattended re-sync count")
    cx.mc("Sched", "MC_Sched.cfg", {"MaxDur": 7 if q else 12, "SDefects": "{}"}, workers=4,
          note="scheduling rule of the report loop with rounds of 1..MaxDur iterations and any results: a failed round is retried "
               "within 4 iterations, a round starts at least every 60, bounded overlap")
    ok, _ = cx.mc("Sched", "MC_Sched.cfg", {"MaxDur": 7, "SDefects": '{"noretry"}'}, workers=2, expect_ok=False,
                  note="non-vacuity: without the retry rule RetryWithin4 fails")
    if ok:
        raise __import__("core").Broken("Sched no longer refutes the deviation 'noretry'")
    r = cx.drv_ok("rounds", ["--only", "sched"])
    cx.validate("Trace_Round", "Trace_Round.cfg", r["trace"],
                what="the report loop single-stepped for 170 iterations against ok / refusing / failing endpoints with a recent or stale "
                     "last-sync file: every launch decision fits SchedRule for a status the rounds' progress allows, tick counter exact, "
                     "rounds begin only when launched, results stored fit the rounds' outcome, every launch became a round")
    r = cx.drv_ok("syncparse")
    cx.validate("Trace_Sync", "Trace_Sync.cfg", r["trace"] + ".parse", what="parser on every single-bit flip / truncation / rogue-signed variant (no panic)")


def c17(cx):
    cx.assumptions += ["signatures abstract (ground truth from the harness's signing record)"]
    q = cx.tier == QUICK
    cx.mc("MC_ClientSrv", "MC_ClientSrv.cfg", {"CDefects": "{}", "MaxRounds": 2 if q else 3, "Conc": 2},
          note="two overlapping rounds: a reply verified against a GCA key that is no longer current is discarded; "
               "MigrateOnlyIfDoublySigned / ListOnlyBySignature refer to the CURRENT GCA")
    ok, _ = cx.mc("MC_ClientSrv", "MC_ClientSrv.cfg", {"CDefects": '{"stalegca"}', "MaxRounds": 2, "Conc": 2}, expect_ok=False,
                  note="non-vacuity: applying the reply of a round that began under the former GCA (deviation stalegca, the code before a2650bd) is refuted")
    if ok:
        raise __import__("core").Broken("MC_ClientSrv no longer refutes the deviation 'stalegca'")
    cx.mc("MC_ClientSrv", "MC_ClientSrv.cfg", {"CDefects": "{}", "MaxRounds": 2 if q else 4, "Conc": 1},
          note="MigrateOnlyIfDoublySigned, ListOnlyBySignature asserted at every applied reply; EntryFrozenUnlessBan, BannedMonotone "
               "(memory and disk), PersistEqualsAdopted")
    r = cx.drv_ok("rounds", ["--only", "lists"])
    cx.validate("Trace_Round", "Trace_Round.cfg", r["trace"],
                what="client: lists (new, changed ports, outsider-signed, ban, un-ban attempt, ban+stale entry) and migration orders "
                     "(invalid outer, invalid inner, other device, same GCA, valid; afterwards lists by old/new GCA) with restarts; files decoded after every step")
    r = cx.drv_ok("srvlist")
    cx.validate("Trace_Server", "Trace_C17.cfg", r["trace"],
                what="server: sequences of server-authorization posts, list and sync reply after each")
    r = cx.drv_ok("equip", ["--only", "reg"])
    cx.validate("Trace_Server", "Trace_C17.cfg", r["trace"], what="server: server authorizations and migration orders signed by each candidate key")


def c08(cx):
    cx.assumptions += ["the relay's decisions (drop / deliver / duplicate / hold and deliver late in another order) are taken per datagram from a seeded generator",
                       "identity of retransmissions is judged on a digest of the 80 bytes taken at the client's send hook; as the property says it is "
                       "required for readings that fit 32 signed bits",
                       "the eventuality is checked in its safety form: at the quiescent point after a fault-free round and delivery of everything held"]
    q = cx.tier == QUICK
    cx.mc("MC_History", "MC_History.cfg", {"MaxEdits": 2, "Unfit": "FALSE"},
          note="client side: retransmissions (Resend) anywhere between file edits, loop iterations and restarts: NoEquivocation, SentIsStored")
    cx.mc("MC_Rotate", "MC_SyncBits.cfg", {"MaxNow": 8, "MaxReports": 1 if q else 2},
          note="server side: the bitfield the client resends from is exact in every state (SyncBitsOK)")
    r = cx.drv_ok("recover")
    cx.validate("Trace_Server", "Trace_C08.cfg", r["trace"], what="server events of the recovery histories (reports via the relay, sync replies, rotation, restart)")
    cx.validate("Trace_System", "Trace_System.cfg", r["trace"] + ".sys", {"AllValues": "FALSE"},
                what="Recovered at every quiescent point, RetransmitIdentical for all datagrams of a timeslot")
    r = cx.drv_ok("rounds", ["--only", "resend"])
    cx.validate("Trace_Round", "Trace_Round.cfg", r["trace"],
                what="two overlapping rounds against three endpoints that report everything as missing (one round held after its pick while "
                     "the other picks another primary server): every retransmission goes to the server its round synced with")


def c12(cx):
    cx.assumptions += ["handler panics are read from net/http's own log line (http: panic serving); a panic in another goroutine kills the driver process and is reported from its stack",
                       "'bounded time' for shutdown is judged with a 15 s deadline on Close() (test build: sync connections time out after 2.5 s)",
                       "geo-stats needs the network: offline only its validation and clean failure are observable"]
    q = cx.tier == QUICK
    cx.mc("MC_Accept", "MC_Accept.cfg", {"Defects": "{}", "MaxNow": 12 if q else 16, "MaxReports": 1 if q else 2},
          note="IndexInBounds asserted before every array access of report intake at every (now, offset) incl. lagging rotation and start-up catch-up")
    cx.mc("Shutdown", "Shutdown.cfg", {"ShDefects": "{}"}, workers=4,
          note="liveness closing ~> closed with 3 connections in every state (idle, half sent, answered, disconnected), fairness on server steps only")
    # requests keep being answered and Close() returns only if no two handlers can wait for each other's mutex:
    # every control-flow path of the server's locking code is walked, the nesting order must be acyclic
    lockcfg(cx, ["server", "glow"])
    r = cx.drv_ok("accept", crash_violation=True)
    if not r.get("crashed"):
        cx.validate("Trace_Server", "Trace_C12.cfg", r["trace"], what="datagram menu at 7 clock/offset configurations incl. start-up catch-up (no panic, index in bounds)")
    r = cx.drv_ok("robust", crash_violation=True)
    if not r.get("crashed"):
        cx.validate("Trace_Server", "Trace_C12.cfg", r["trace"],
                    what="every endpoint x 7 methods x request classes with liveness probe and panic log; unreachable peers; idle / half-sent connections at shutdown")


def c05(cx):
    cx.assumptions += ["process-crash model: completed system calls survive, a single write system call is atomic (not torn); power loss / torn pages are outside the property",
                       "kills on entry to the n-th write system call on a given file are injected with strace (ptrace); if strace is unavailable that part is skipped and reported",
                       "the child process writes every trace event through to its file before the hook returns, and journals the ground truth of the signatures it makes"]
    q = cx.tier == QUICK
    cx.mc("MC_Equip", "MC_Crash_Equip.cfg", {"Defects": "{}", "MaxAuths": 2 if q else 3, "MaxReports": 1},
          note="Crash enabled in every state incl. the very first start; the two intermediate file states (server.keys created-not-written, "
               "gcaPubKey.dat truncated-not-written); StartAlwaysOK, StillRegistrable, RestartEquiv")
    cx.mc("MC_Rotate", "MC_Crash_Rotate.cfg", {"Defects": "{}", "MaxNow": 8, "MaxReports": 1 if q else 2},
          note="Crash in every state of the rotation model")
    r = cx.drv_ok("crash", timeout=200)
    cx.cov["crashes"] = r["summary"].get("crashes")
    cx.validate("Trace_Server", "Trace_C05.cfg", r["trace"],
                what="child processes killed at armed crash points inside each persistence operation, by SIGKILL at random instants, and on entry to "
                     "the n-th write system call on each file (strace injection); files found = completed operations + at most the write in flight, "
                     "start succeeds and equals the specification's load of those files, registration still possible / refused as recorded")


def c15(cx):
    cx.assumptions += ["the harness converts field values to little-endian byte sequences; the little-endian rule itself is checked by TLC on small numbers (Num events)",
                       "determinism of signing and sensitivity of verification to every bit are properties of Keccak/secp256k1: they are the abstraction assumption of "
                       "all other checks and are only sampled here (all single-bit flips of message, signature and key of several signed messages)",
                       "sync replies are signed without a type prefix (first signed bytes = device public key); an observation, outside the listed structures",
                       "for decoders the comparison of decoded fields with the input bytes uses the harness's reference encoders"]
    cx.mc("MC_Wire", "MC_Wire.cfg", {}, workers=2,
          note="constant-level: no signing prefix is a prefix of another; fixed record lengths 80/148/96; decode(encode) = id and wrong lengths refused over a small byte alphabet")
    r = cx.drv_ok("wire")
    cx.validate("Trace_Wire", "Trace_Wire.cfg", r["trace"],
                what="real Serialize / SigningBytes / Deserialize of every structure on boundary and random values; streams of 0..3 weekly records; "
                     "server maps with 0..4 entries, locations up to 65535; JSON transport; signing samples")


def c14(cx):
    import json
    cx.assumptions += ["a single write system call is not observed half done by a concurrent read (the README's premise; a kernel property)",
                       "the order in which the code archives its files is read from server.PublicFiles of the tree under test and given to the model",
                       "an unregistered server has no GCA key file and answers 500: no archive is produced, which the property does not forbid",
                       "the rate limit is judged from the callers' before/after clock readings (only certain violations count)"]
    q = cx.tier == QUICK
    prod = json.loads(cx.run_tool("prodconsts", "verif"))
    names = {"allDeviceStats.dat": "stats", "equipment-reports.dat": "reports", "equipment-authorizations.dat": "auths",
             "gcaPubKey.dat": "gca", "gcaTempPubKey.dat": "temp"}
    order = [names.get(f, "other") for f in prod["public_files"]]
    cx.module_subst = {"Order": "<<" + ", ".join('"%s"' % o for o in order) + ">>"}
    ok, res = cx.mc("MC_Archive", "MC_Archive.cfg", {"MaxBursts": 5 if q else 7}, workers=8, expect_ok=False,
                    note="every interleaving of <=5/7 writes (registration, new device, report, rotation) with the reads of one request, "
                         "in the order the code uses: " + " ".join(order))
    cx.module_subst = None
    cx.cov["model_says_order_safe"] = ok
    consts = prod["server"]
    r = cx.drv_ok("archive")
    cx.validate("Trace_Archive", "Trace_Archive.cfg", r["trace"] + ".arc", {"Limit": int(consts["apiArchiveLimit"])},
                what="for every gap between two files x every burst (new device + first report, rotation, registration + first device) "
                     "the real request is held in the gap; concurrent writers; request bursts against the limiter")
    if not ok and not cx.violations:
        raise __import__("core").Broken("the model finds the code's archive order unsafe but no real archive showed it: unreproduced counterexample")


def c13(cx):
    cx.assumptions += ["absence of data races is decided by the specification only through the lock discipline (LockCFG: shared fields accessed only on paths "
                       "where their mutex is held); the race detector on the replayed and randomized schedules is auxiliary: it observes the schedules that ran",
                       "trace events are emitted inside the critical sections, so their order is the order of the lock: validation of that sequence by the "
                       "sequential specification is the linearizability check",
                       "the rotation thread cannot interfere with itself (one thread); 'rotate' as an interfering operation is the real thread, triggered by the clock"]
    q = cx.tier == QUICK
    cx.mc("MC_Conc", "MC_Conc.cfg", {"Defects": "{}", "MaxOps": 4 if q else 5},
          note="collector, rotator and sync handler as pc-structured processes; in every gap every operation of the menu (ban, duplicate, report, clock); "
               "CollectorNilDeref asserted, sequential invariants in every state")
    lockcfg(cx, ["server", "glow", "client"])
    r = cx.drv_ok("conc", ["--only", "gaps"], crash_violation=True)
    if not r.get("crashed"):
        cx.validate("Trace_Server", "Trace_C13.cfg", r["trace"],
                    what="every yield point (collector, rotation decided / before lock, sync between sections, server-authorization between sections, "
                         "authorize before peers, migrate validated, stats after unlock) x every interfering operation (ban, authorize, report, rotate, "
                         "report for a just banned device), all actions strict")
    for k in range(1 if q else 4):      # thorough: four independently seeded workloads (each driver process lives < 110 s)
        r = cx.drv_ok("conc", ["--only", "random"], race=True, crash_violation=True, timeout=200, seed=cx.seed + 1000 * k)
        if not r.get("crashed"):
            cx.validate("Trace_Server", "Trace_C13.cfg", r["trace"],
                        what="12 goroutines: registrations, server authorizations, migrations, equipment incl. bans, reports over UDP and direct, reads, "
                             "clock jumps forcing rotations; built with -race")


def lockcfg(cx, pkgs, violate_pkgs=("server", "glow")):
    """Extract the lock control-flow graphs of the packages from the tree under test and let TLC walk every
    path from every root; then check that the nesting edges found form an acyclic order."""
    import json, os, re, subprocess
    core = __import__("core")
    exe = cx.build("lockcfg", tags="test verif")
    out = os.path.join(cx.scratch, "LockData.tla")
    r = subprocess.run([exe, "-repo", core.REPO, "-out", out, "-json", out + ".json", *pkgs],
                       env=cx.env(), capture_output=True, text=True, timeout=300)
    if r.returncode != 0:
        raise core.Broken("lock CFG extraction failed: " + r.stderr[-2000:])
    info = json.load(open(out + ".json"))
    res = cx._tlc("LockCFG", cx.cfg("LockCFG.cfg", {}), {"LockData.tla": out}, 8, 600)
    if "Model checking completed. No error has been found." not in res["out"] or res["errors"]:
        raise core.Broken("LockCFG walk did not complete:\n" + "\n".join(res["out"].splitlines()[-30:]))
    msgs = set()
    for mm in re.finditer(r'<<\s*"LOCKCFG(-EDGE)?",.*?>>\s*(?=\n<<|\n[A-Z0-9]|\Z)', res["out"], re.S):
        msgs.add(re.sub(r"\s+", " ", mm.group(0)))
    edges = sorted({tuple(re.findall(r'"([^"]+)"', x)[1:3]) for x in msgs if '"LOCKCFG-EDGE"' in x})
    viol, infos = [], []
    for x in sorted(msgs):
        if '"LOCKCFG-EDGE"' in x:
            continue
        parts = re.findall(r'"([^"]+)"', x)
        kind = parts[1]
        subject = x
        in_scope = any(('"%s.' % p) in x for p in violate_pkgs)
        if kind in ("relock", "unlock-unheld", "held-at-return", "held-at-exit") and in_scope:
            viol.append(x)
        elif kind == "unprotected" and any(parts[2].startswith(p + ".") for p in violate_pkgs) and cx.pid == "C13":
            viol.append(x)
        else:
            infos.append(x)
    cx.step("lockcfg", packages=list(pkgs), functions=info["functions"], blocks=info["blocks"], lock_ops=info["lock_ops"],
            field_accesses=info["field_accesses"], roots=info["roots"], generated=res.get("generated"), distinct=res.get("distinct"),
            wall_s=res["wall_s"], violations=len(viol), informational=len(infos), nesting_edges=[list(e) for e in edges])
    cx.cov["states"] += res.get("distinct", 0)
    cx.cov["transitions"] += res.get("generated", 0)
    cx.cov["lockcfg"] = {"functions": info["functions"], "blocks": info["blocks"], "lock_ops": info["lock_ops"],
                         "field_accesses": info["field_accesses"], "protected_fields": sorted(info["protected"]),
                         "nesting_edges": [list(e) for e in edges], "informational": infos[:12]}
    # acyclic lock order
    cx.module_subst = {"Edges": "{" + ", ".join('<<"%s", "%s">>' % e for e in edges) + "}"}
    ok, r2 = cx.mc("LockOrder", "LockOrder.cfg", {}, workers=1, expect_ok=False, note="nesting edges found by the walk form an acyclic order")
    cx.module_subst = None
    if not ok:
        viol.append("LOCKCFG lock order is cyclic: " + str(edges))
    findings = [f for f in core.known_findings()["findings"] if f["property"] == cx.pid and f.get("site")]
    new = []
    for v in viol:
        hit = [f for f in findings if f["site"] in v]
        if hit:
            cx.known.append("%s: %s" % (hit[0]["id"], hit[0]["what"]))
        else:
            new.append(v)
    if new:
        p = os.path.join(cx.scratch, "lockcfg.txt")
        open(p, "w").write("\n".join(new) + "\n")
        cx.violation("lock discipline violated on a control-flow path of the tree under test: " + new[0][:400],
                     files={"lockcfg.txt": p, "LockData.tla": out}, data=new)


PLANS = {"C01": c01, "C02": c02, "C03": c03, "C04": c04, "C05": c05, "C06": c06, "C07": c07, "C08": c08, "C09": c09, "C10": c10, "C11": c11, "C12": c12, "C13": c13, "C14": c14, "C15": c15, "C16": c16, "C17": c17, "C18": c18, "C19": c19, "C20": c20}


def replay(cx, path):
    """Re-validate a stored violation: the recorded scenario against the trace specification."""
    import json, os
    meta = json.load(open(os.path.join(path, "replay.json")))
    if "module" not in meta:
        raise __import__("core").Broken("this replay has no trace to re-validate: " + meta.get("what", ""))
    subst = dict(meta.get("subst") or {})
    subst["DiagLine"] = 0
    cx.validate(meta["module"], meta["cfg"], os.path.join(path, "trace.ndjson"), subst, what="replay")
