package hx

import (
	"bytes"
	"encoding/hex"
	"encoding/json"
	"fmt"
	"io"
	"net"
	"net/http"
	"os"
	"path/filepath"
	"strings"
	"sync"
	"sync/atomic"
	"time"

	"github.com/glowlabs-org/gca-backend/glow"
	"github.com/glowlabs-org/gca-backend/server"
)

// Env drives one real server (restarted any number of times on one
// directory) and records its trace.
type Env struct {
	Abs
	T        *Trace
	Dir      string
	Srv      *server.GCAServer
	live     atomic.Pointer[server.GCAServer] // the server object last seen by a hook (set during start-up too)
	WithDisk bool
	catchUps int64           // catch-up polls seen in the current start-up
	NoResp   bool            // concurrent workloads: replies are not recorded (they cannot be matched to lock events)
	Quiet    map[string]bool // hook events not recorded

	wmu     sync.Mutex
	waiters []*waiter
	Yield   func(s *server.GCAServer, point string)
	clock   uint32
	HTTP    *http.Client
}

type waiter struct {
	ev string
	ch chan struct{}
}

func NewEnv(t *Trace) *Env {
	kr := NewKeyRing()
	e := &Env{Abs: Abs{KR: kr, SR: NewSigReg(kr)}, T: t, Quiet: map[string]bool{}}
	e.HTTP = &http.Client{Timeout: 20 * time.Second, Transport: &http.Transport{DisableKeepAlives: true}}
	for _, n := range []string{"temp", "gca", "gca2", "x1"} {
		kr.Gen(n)
	}
	server.VerifHook = e.onHook
	server.VerifYieldHook = func(s *server.GCAServer, p string) {
		e.live.Store(s)
		if y := e.Yield; y != nil {
			y(s, p)
		}
	}
	return e
}

// NewDir prepares a fresh server directory the way an operator would: the
// temporary GCA key and the WattTime credentials.
func (e *Env) NewDir(root, name string) {
	e.Dir = filepath.Join(root, name)
	must(os.MkdirAll(filepath.Join(e.Dir, "watttime_data"), 0755))
	tk := e.KR.Pub("temp")
	must(os.WriteFile(filepath.Join(e.Dir, "gcaTempPubKey.dat"), tk[:], 0644))
	must(os.WriteFile(filepath.Join(e.Dir, "watttime_data", "username"), []byte("u"), 0644))
	must(os.WriteFile(filepath.Join(e.Dir, "watttime_data", "password"), []byte("p"), 0644))
}

func must(err error) {
	if err != nil {
		panic(err)
	}
}

// Tick sets the manual clock and records it, atomically w.r.t. the trace.
func (e *Env) Tick(t uint32) {
	e.T.Lock()
	glow.SetCurrentTimeslot(t)
	e.clock = t
	e.T.LastTick = int(t)
	e.T.EmitLocked(J{"a": "Tick", "t": int(t)})
	e.T.Unlock()
}

func (e *Env) Now() uint32 { return e.clock }

func (e *Env) post(s *server.GCAServer, locked bool) J {
	var st server.VerifState
	if locked {
		st = s.VerifSnapshotLocked()
	} else {
		st = s.VerifSnapshot()
	}
	p := e.State(st)
	if e.WithDisk {
		p["disk"] = e.Disk(e.Dir)
	}
	return p
}

// onHook converts the implementation's trace points into abstract events.
func (e *Env) onHook(s *server.GCAServer, _ uint64, ev string, args []interface{}) {
	if e.live.Swap(s) != s {
		// the first event of a server object (its background threads run before NewGCAServer returns): the key it
		// signs weekly records with is on disk by now and is what those signatures are judged against
		e.LoadServerKey(e.Dir)
	}
	if e.Quiet[ev] {
		e.notify(ev)
		return
	}
	j := J{"a": ev, "now": int(glow.CurrentTimeslot())}
	switch ev {
	case "RecvReport":
		j["d"] = e.Datagram(args[0].([]byte))
		j["post"] = e.post(s, true)
	case "UDPRead":
		j["n"] = args[0].(int)
	case "Register":
		gr := args[0].(server.GCARegistration)
		j["k"] = e.KR.Name(gr.GCAKey)
		j["sig"] = e.SR.Describe(gr.Signature, RefRegistrationSigningBytes(gr.GCAKey))
		j["post"] = e.post(s, true)
	case "Authorize":
		j["auth"] = e.Auth(ToRawAuth(args[0].(glow.EquipmentAuthorization)))
		j["post"] = e.post(s, true)
	case "CatchUpPoll", "RotPoll", "RotGo":
		j["ero"] = Clamp30(uint64(args[0].(uint32)))
		j["t"] = Clamp30(uint64(args[1].(uint32)))
		if ev == "CatchUpPoll" {
			// not inside a critical section: the state loaded from disk (first
			// poll) or left by the previous catch-up rotation
			s.VerifLocked(func() {
				j["post"] = e.post(s, true)
				e.T.Emit(j)
			})
			// a start-up that keeps rotating without end (every poll is in the trace and judged there) would
			// fill the disk: the driver process stops, what it recorded is validated
			if n := atomic.AddInt64(&e.catchUps, 1); n > 40 {
				e.T.Emit(J{"a": "DriverNote", "note": "more than 40 catch-up polls in one start-up: the driver stops"})
				FlushAll()
				os.Exit(5)
			}
			e.notify(ev)
			return
		}
	case "Rotate":
		w := e.Week(ToRawWeek(args[0].(server.AllDeviceStats)))
		j["tag"] = w["tag"]
		j["post"] = e.post(s, true)
	case "QueryStats":
		j["tso"] = Clamp30(uint64(args[0].(uint32)))
		j["post"] = e.post(s, true)
	case "QueryRecent":
		j["key"] = e.KR.Name(args[0].(glow.PublicKey))
		j["post"] = e.post(s, true)
	case "QueryEquipment", "AuthSrvListEquip":
		j["post"] = e.post(s, true)
	case "SyncRead":
		j["id"] = Clamp30(uint64(args[0].(uint32)))
		j["post"] = e.post(s, true)
	case "SyncServers":
		j["id"] = Clamp30(uint64(args[0].(uint32)))
		j["servers"] = e.Servers(rawServers(s.VerifServersLocked()))
	case "AuthzPeers":
		j["servers"] = e.Servers(rawServers(s.VerifServersLocked()))
	case "AuthorizeServer":
		j["as"] = e.Server(ToRawServer(args[0].(server.AuthorizedServer)))
		j["outcome"] = args[1].(string)
		j["servers"] = e.Servers(rawServers(s.VerifServersLocked()))
	case "Migrate":
		j["m"] = e.Migration(ToRawMigration(args[0].(server.EquipmentMigration)))
		j["post"] = e.post(s, true)
	case "ImpactList":
		ids := []int{}
		for _, id := range args[0].([]uint32) {
			ids = append(ids, int(id))
		}
		j["ids"] = ids
	case "ImpactSet":
		j["id"] = int(args[0].(uint32))
		j["ts"] = Clamp30(uint64(args[1].(uint32)))
		j["bits"] = F64Bits(args[2].(float64))
	default:
		j["unknown"] = true
	}
	e.T.Emit(j)
	e.notify(ev)
}

func rawServers(l []server.AuthorizedServer) []RawServer {
	out := []RawServer{}
	for _, s := range l {
		out = append(out, ToRawServer(s))
	}
	return out
}

func (e *Env) notify(ev string) {
	e.wmu.Lock()
	defer e.wmu.Unlock()
	for i, w := range e.waiters {
		if w != nil && w.ev == ev {
			close(w.ch)
			e.waiters[i] = nil
			return
		}
	}
}

// Expect registers interest in the next hook event of the given name; the
// returned function waits for it.
func (e *Env) Expect(ev string) func(d time.Duration) bool {
	w := &waiter{ev: ev, ch: make(chan struct{})}
	e.wmu.Lock()
	e.waiters = append(e.waiters, w)
	e.wmu.Unlock()
	return func(d time.Duration) bool {
		select {
		case <-w.ch:
			return true
		case <-time.After(d):
			e.wmu.Lock()
			for i, x := range e.waiters {
				if x == w {
					e.waiters[i] = nil
				}
			}
			e.wmu.Unlock()
			return false
		}
	}
}

// Start runs NewGCAServer on the directory. The start-up is recorded as
// StartBegin, the hook events of the catch-up rotations, and Start.
func (e *Env) Start() error {
	atomic.StoreInt64(&e.catchUps, 0)
	e.T.Emit(J{"a": "StartBegin", "now": int(glow.CurrentTimeslot())})
	var srv *server.GCAServer
	var err error
	pan := catch(func() { srv, err = server.NewGCAServer(e.Dir) })
	j := J{"a": "Start", "now": int(glow.CurrentTimeslot()), "ok": err == nil && pan == "", "err": errStr(err), "panic": pan}
	if err == nil && pan == "" {
		e.Srv = srv
		if b, rerr := os.ReadFile(filepath.Join(e.Dir, "server.keys")); rerr == nil && len(b) == 96 {
			var pub glow.PublicKey
			var priv glow.PrivateKey
			copy(pub[:], b[:32])
			copy(priv[:], b[32:])
			e.KR.Add("srv", pub, priv)
		}
		srv.VerifLocked(func() {
			j["post"] = e.post(srv, true)
			e.T.Emit(j)
		})
		return nil
	}
	if e.WithDisk {
		j["disk"] = e.Disk(e.Dir)
	}
	e.T.Emit(j)
	if pan != "" {
		return fmt.Errorf("panic: %s", pan)
	}
	return err
}

func errStr(err error) string {
	if err == nil {
		return ""
	}
	return err.Error()
}

func catch(f func()) (p string) {
	defer func() {
		if r := recover(); r != nil {
			p = fmt.Sprint(r)
		}
	}()
	f()
	return ""
}

// Close shuts the server down (Close runs the implementation's own
// CheckInvariants first); a panic or a shutdown that does not finish within
// the deadline is recorded in the event.
func (e *Env) Close() (ok bool) {
	if e.Srv == nil {
		return true
	}
	srv := e.Srv
	e.Srv = nil
	done := make(chan string, 1)
	var cerr error
	start := time.Now()
	go func() { done <- catch(func() { cerr = srv.Close() }) }()
	j := J{"a": "Close", "now": int(glow.CurrentTimeslot())}
	select {
	case p := <-done:
		j["panic"] = p
		j["err"] = errStr(cerr)
		j["hang"] = false
		ok = p == "" && cerr == nil
	case <-time.After(15 * time.Second):
		j["panic"] = ""
		j["err"] = ""
		j["hang"] = true
	}
	j["ms"] = int(time.Since(start).Milliseconds())
	e.T.Emit(j)
	return ok
}

// URL returns the address of an API path on the running server.
func (e *Env) URL(path string) string { return e.httpURL(path) }

func (e *Env) httpURL(path string) string {
	h, _, _ := e.Srv.Ports()
	return fmt.Sprintf("http://127.0.0.1:%d%s", h, path)
}

// PostJSON posts v and returns status and body.
func (e *Env) PostJSON(path string, v interface{}) (int, string) {
	b, err := json.Marshal(v)
	must(err)
	return e.PostRaw(path, b)
}

func (e *Env) PostRaw(path string, body []byte) (int, string) {
	resp, err := e.HTTP.Post(e.httpURL(path), "application/json", bytes.NewReader(body))
	if err != nil {
		return -1, err.Error()
	}
	defer resp.Body.Close()
	rb, _ := io.ReadAll(resp.Body)
	return resp.StatusCode, string(rb)
}

func (e *Env) Get(path string) (int, []byte) {
	resp, err := e.HTTP.Get(e.httpURL(path))
	if err != nil {
		return -1, []byte(err.Error())
	}
	defer resp.Body.Close()
	rb, _ := io.ReadAll(resp.Body)
	return resp.StatusCode, rb
}

// Register submits a registration of key k signed by signer (over the
// registration of key signedFor, which differs from k for an altered key).
func (e *Env) Register(k, signer, signedFor string) int {
	gr := server.GCARegistration{GCAKey: e.KR.Pub(k)}
	if signer != "" {
		gr.Signature = e.SR.Sign(signer, RefRegistrationSigningBytes(e.KR.Pub(signedFor)))
	}
	st, _ := e.PostJSON("/api/v1/register-gca", gr)
	e.T.Emit(J{"a": "RegisterResp", "k": k, "status": st})
	return st
}

// AuthSpec describes an authorization to build.
type AuthSpec struct {
	ID     uint32
	Key    string
	Cap    uint64
	Lat    float64
	Long   float64
	Debt   uint64
	Exp    uint32
	Init   uint32
	Fee    uint64
	Signer string // "" = unsigned
}

func (e *Env) BuildAuth(s AuthSpec) glow.EquipmentAuthorization {
	a := RawAuth{ShortID: s.ID, PublicKey: e.KR.Gen(s.Key), Latitude: s.Lat, Longitude: s.Long, Capacity: s.Cap,
		Debt: s.Debt, Expiration: s.Exp, Initialization: s.Init, ProtocolFee: s.Fee}
	if s.Signer != "" {
		a.Signature = e.SR.Sign(s.Signer, RefAuthSigningBytes(a))
	}
	return FromRawAuth(a)
}

// Authorize posts an authorization through the JSON endpoint.
func (e *Env) Authorize(a glow.EquipmentAuthorization) int {
	st, body := e.PostJSON("/api/v1/authorize-equipment", a)
	if e.NoResp {
		return st
	}
	e.T.Emit(J{"a": "AuthorizeResp", "id": Clamp30(uint64(a.ShortID)), "status": st, "body": strings.TrimSpace(body)})
	return st
}

// ReportBytes builds a signed report; signer "" leaves the signature zero;
// alt > 0 selects an alternative nonce (re-signed variant).
func (e *Env) ReportBytes(id, ts uint32, val uint64, signer string, alt int) []byte {
	var sig glow.Signature
	msg := RefReportSigningBytes(id, ts, val)
	if signer != "" {
		if alt > 0 {
			sig = e.SR.SignAlt(signer, msg, alt)
		} else {
			sig = e.SR.Sign(signer, msg)
		}
	}
	return RefReportBytes(id, ts, val, sig)
}

// Deliver hands a datagram to the report handler synchronously.
func (e *Env) Deliver(b []byte) {
	e.T.Emit(J{"a": "Direct"})
	if p := catch(func() { e.cur().VerifHandleDatagram(b) }); p != "" {
		e.T.Emit(J{"a": "Panic", "where": "report handler", "what": p})
	}
}

func (e *Env) cur() *server.GCAServer {
	if e.Srv != nil {
		return e.Srv
	}
	return e.live.Load()
}

// SendUDP sends a datagram to the real UDP port and waits for the listener
// to have read it (and, for 80 bytes or more, for the handler to finish).
func (e *Env) SendUDP(b []byte) bool {
	_, _, up := e.cur().Ports()
	waitRead := e.Expect("UDPRead")
	var waitRecv func(time.Duration) bool
	if len(b) >= 80 {
		waitRecv = e.Expect("RecvReport")
	}
	conn, err := net.Dial("udp", fmt.Sprintf("127.0.0.1:%d", up))
	if err != nil {
		return false
	}
	_, err = conn.Write(b)
	conn.Close()
	if err != nil {
		return false
	}
	if !waitRead(3 * time.Second) {
		return false
	}
	if waitRecv != nil {
		return waitRecv(3 * time.Second)
	}
	return true
}

// CheckInv runs the implementation's own CheckInvariants and records whether
// it panicked.
func (e *Env) CheckInv() string {
	p := catch(func() { e.Srv.CheckInvariants() })
	e.T.Emit(J{"a": "CheckInv", "panic": p})
	return p
}

// QueryEquipment fetches /equipment and records the decoded reply.
func (e *Env) QueryEquipment() {
	st, body := e.Get("/api/v1/equipment")
	var er server.EquipmentResponse
	eq := []J{}
	if st == 200 && json.Unmarshal(body, &er) == nil {
		ids := []int{}
		for id := range er.EquipmentDetails {
			ids = append(ids, int(id))
		}
		sortInts(ids)
		for _, id := range ids {
			eq = append(eq, e.Auth(ToRawAuth(er.EquipmentDetails[uint32(id)])))
		}
	}
	e.T.Emit(J{"a": "EquipmentResp", "status": st, "equip": eq})
}

func sortInts(a []int) {
	for i := 1; i < len(a); i++ {
		for j := i; j > 0 && a[j-1] > a[j]; j-- {
			a[j-1], a[j] = a[j], a[j-1]
		}
	}
}

// ServerSpec describes an authorized-server entry to build.
type ServerSpec struct {
	Key    string
	Banned bool
	Loc    string
	Ports  [3]uint16
	Signer string
}

func (e *Env) BuildServer(s ServerSpec) server.AuthorizedServer {
	r := RawServer{PublicKey: e.KR.Gen(s.Key), Banned: s.Banned, Location: s.Loc, HttpPort: s.Ports[0], TcpPort: s.Ports[1], UdpPort: s.Ports[2]}
	if s.Signer != "" {
		r.Sig = e.SR.Sign(s.Signer, RefServerSigningBytes(r))
	}
	return server.AuthorizedServer{PublicKey: r.PublicKey, Banned: r.Banned, Location: r.Location, HttpPort: r.HttpPort, TcpPort: r.TcpPort, UdpPort: r.UdpPort, GCAAuthorization: r.Sig}
}

// AuthorizeServer posts a server entry.
func (e *Env) AuthorizeServer(as server.AuthorizedServer) int {
	st, _ := e.PostJSON("/api/v1/authorized-servers", as)
	if e.NoResp {
		return st
	}
	e.T.Emit(J{"a": "AuthorizeServerResp", "as": e.Server(ToRawServer(as)), "status": st})
	return st
}

// QueryServers fetches the authorized server list.
func (e *Env) QueryServers() {
	st, body := e.Get("/api/v1/authorized-servers")
	var r server.AuthorizedServersResponse
	l := []J{}
	if st == 200 && json.Unmarshal(body, &r) == nil {
		l = e.Servers(rawServers(r.AuthorizedServers))
	}
	e.T.Emit(J{"a": "ServersResp", "status": st, "servers": l})
}

// BuildMigration builds a migration order for device key dev to newGCA,
// outer signature by signer, each new server signed by innerSigner.
func (e *Env) BuildMigration(dev, newGCA string, newID uint32, servers []ServerSpec, signer string) server.EquipmentMigration {
	m := RawMigration{Equipment: e.KR.Gen(dev), NewGCA: e.KR.Gen(newGCA), NewShortID: newID}
	em := server.EquipmentMigration{Equipment: m.Equipment, NewGCA: m.NewGCA, NewShortID: newID}
	for _, s := range servers {
		as := e.BuildServer(s)
		em.NewServers = append(em.NewServers, as)
		m.NewServers = append(m.NewServers, ToRawServer(as))
	}
	if signer != "" {
		em.Signature = e.SR.Sign(signer, RefMigrationSigningBytes(m))
	}
	return em
}

func (e *Env) Migrate(m server.EquipmentMigration) int {
	st, _ := e.PostJSON("/api/v1/equipment-migrate", m)
	if e.NoResp {
		return st
	}
	e.T.Emit(J{"a": "MigrateResp", "m": e.Migration(ToRawMigration(m)), "status": st})
	return st
}

// Restart closes the server and starts it again on the same directory.
func (e *Env) Restart() error {
	e.Close()
	return e.Start()
}

// RegisterQuiet posts a registration and returns the status without
// recording a reply event (used for concurrent batches).
func (e *Env) RegisterQuiet(k, signer string) int {
	gr := server.GCARegistration{GCAKey: e.KR.Pub(k)}
	if signer != "" {
		gr.Signature = e.SR.Sign(signer, RefRegistrationSigningBytes(e.KR.Pub(k)))
	}
	st, _ := e.PostJSON("/api/v1/register-gca", gr)
	return st
}

type statsJSON struct {
	Devices []struct {
		PublicKey    [32]byte
		PowerOutputs []int64
		ImpactRates  []float64
	}
	TimeslotOffset uint32
	Signature      [64]byte
}

// QueryStats requests the weekly statistics with the raw query parameter
// value param (tso is its numeric meaning, -1 if it has none) and records
// the decoded reply.
func (e *Env) QueryStats(param string, tso int64, neg bool) int {
	path := "/api/v1/all-device-stats"
	sep := "?"
	if param != "<absent>" {
		path += sep + "timeslot_offset=" + param
		sep = "&"
	}
	if neg {
		path += sep + "insert_false_negatives=true"
	}
	st, body := e.Get(path)
	j := J{"a": "StatsResp", "param": param, "tso": -1, "neg": neg, "status": st}
	if tso >= 0 {
		j["tso"] = Clamp30(uint64(tso))
	}
	if st == 200 {
		var sj statsJSON
		if err := json.Unmarshal(body, &sj); err != nil {
			j["status"] = -2
		} else {
			w := RawWeek{TimeslotOffset: sj.TimeslotOffset, Signature: sj.Signature}
			for _, d := range sj.Devices {
				var rd RawDeviceStats
				rd.PublicKey = d.PublicKey
				if len(d.PowerOutputs) != 2016 || len(d.ImpactRates) != 2016 {
					j["status"] = -3
					continue
				}
				for i := 0; i < 2016; i++ {
					rd.PowerOutputs[i] = uint64(d.PowerOutputs[i])
					rd.ImpactRates[i] = d.ImpactRates[i]
				}
				w.Devices = append(w.Devices, rd)
			}
			j["resp"] = e.Week(w)
		}
	}
	e.T.Emit(j)
	return st
}

// QueryRecent asks /api/v1/recent-reports for the device with the given key
// (raw is sent as the publicKey parameter when it is not empty) and records the
// decoded reply: the non-empty entries of the 4032-slot window by index, and
// whether the signature is the server's over the JSON encoding of the window.
func (e *Env) QueryRecent(key, raw string) int {
	param := raw
	if raw == "" {
		pk := e.KR.Pub(key)
		param = hex.EncodeToString(pk[:])
	}
	path := "/api/v1/recent-reports"
	if param != "<absent>" {
		path += "?publicKey=" + param
	}
	st, body := e.Get(path)
	j := J{"a": "RecentResp", "key": key, "wellformed": raw == "", "status": st}
	if st == 200 {
		var rr struct {
			Reports        [4032]glow.EquipmentReport
			TimeslotOffset uint32
			Signature      glow.Signature
		}
		if err := json.Unmarshal(body, &rr); err != nil {
			j["status"] = -2
		} else {
			slots := []Pair{}
			for i := range rr.Reports {
				r := rr.Reports[i]
				if r == (glow.EquipmentReport{}) {
					continue
				}
				sd := e.SR.Describe(r.Signature, RefReportSigningBytes(r.ShortID, r.Timeslot, r.PowerOutput))
				if r.PowerOutput == 1 {
					sd.Ok = true
				}
				slots = append(slots, Pair{i, J{"v": ValOf(r.PowerOutput), "sig": sd, "rid": Clamp30(uint64(r.ShortID)), "rts": Clamp30(uint64(r.Timeslot))}})
			}
			j["slots"] = slots
			j["tso"] = Clamp30(uint64(rr.TimeslotOffset))
			// the signature is over the JSON encoding of the window, by the server's key
			enc, _ := json.Marshal(&rr.Reports)
			j["sigok"] = e.KR.Has("srv") && glow.Verify(e.KR.Pub("srv"), enc, rr.Signature)
		}
	}
	e.T.Emit(j)
	return st
}

// SyncClockFromTrace sets the manual clock to the last Tick of a trace that
// another process wrote (no event is emitted: the Tick is already there).
func (e *Env) SyncClockFromTrace(t *Trace) {
	glow.SetCurrentTimeslot(uint32(t.LastTick))
	e.clock = uint32(t.LastTick)
}

// LoadServerKey learns the server's own key pair from a server directory.
func (e *Env) LoadServerKey(dir string) {
	if b, err := os.ReadFile(filepath.Join(dir, "server.keys")); err == nil && len(b) == 96 {
		var pub glow.PublicKey
		var priv glow.PrivateKey
		copy(pub[:], b[:32])
		copy(priv[:], b[32:])
		e.KR.Add("srv", pub, priv)
	}
}

// SendUDPNoWait sends a datagram to the UDP port without waiting for the
// listener (concurrent workloads).
func (e *Env) SendUDPNoWait(b []byte) {
	_, _, up := e.cur().Ports()
	conn, err := net.Dial("udp", fmt.Sprintf("127.0.0.1:%d", up))
	if err != nil {
		return
	}
	conn.Write(b)
	conn.Close()
}
