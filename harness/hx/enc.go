package hx

// Reference encoders and decoders, written from the documented layouts
// (README: little-endian fixed-width fields, signing bytes = struct name as
// ASCII prefix followed by the serialization without the signature), not by
// calling the implementation's Serialize/SigningBytes.

import (
	"encoding/binary"
	"math"
)

func le32(v uint32) []byte { b := make([]byte, 4); binary.LittleEndian.PutUint32(b, v); return b }
func le64(v uint64) []byte { b := make([]byte, 8); binary.LittleEndian.PutUint64(b, v); return b }
func le16(v uint16) []byte { b := make([]byte, 2); binary.LittleEndian.PutUint16(b, v); return b }

func cat(parts ...[]byte) []byte {
	var out []byte
	for _, p := range parts {
		out = append(out, p...)
	}
	return out
}

// Report: ShortID u32 | Timeslot u32 | PowerOutput u64 | Signature [64]
func RefReportBody(id, ts uint32, val uint64) []byte { return cat(le32(id), le32(ts), le64(val)) }
func RefReportSigningBytes(id, ts uint32, val uint64) []byte {
	return cat([]byte("EquipmentReport"), RefReportBody(id, ts, val))
}
func RefReportBytes(id, ts uint32, val uint64, sig [64]byte) []byte {
	return cat(RefReportBody(id, ts, val), sig[:])
}

// RawAuth mirrors the fields of an equipment authorization.
type RawAuth struct {
	ShortID        uint32
	PublicKey      [32]byte
	Latitude       float64
	Longitude      float64
	Capacity       uint64
	Debt           uint64
	Expiration     uint32
	Initialization uint32
	ProtocolFee    uint64
	Signature      [64]byte
}

func RefAuthBody(a RawAuth) []byte {
	return cat(le32(a.ShortID), a.PublicKey[:], le64(math.Float64bits(a.Latitude)), le64(math.Float64bits(a.Longitude)),
		le64(a.Capacity), le64(a.Debt), le32(a.Expiration), le32(a.Initialization), le64(a.ProtocolFee))
}
func RefAuthSigningBytes(a RawAuth) []byte {
	return cat([]byte("EquipmentAuthorization"), RefAuthBody(a))
}
func RefAuthBytes(a RawAuth) []byte { return cat(RefAuthBody(a), a.Signature[:]) }

func RefAuthDecode(b []byte) (a RawAuth, ok bool) {
	if len(b) != 148 {
		return a, false
	}
	a.ShortID = binary.LittleEndian.Uint32(b[0:])
	copy(a.PublicKey[:], b[4:36])
	a.Latitude = math.Float64frombits(binary.LittleEndian.Uint64(b[36:]))
	a.Longitude = math.Float64frombits(binary.LittleEndian.Uint64(b[44:]))
	a.Capacity = binary.LittleEndian.Uint64(b[52:])
	a.Debt = binary.LittleEndian.Uint64(b[60:])
	a.Expiration = binary.LittleEndian.Uint32(b[68:])
	a.Initialization = binary.LittleEndian.Uint32(b[72:])
	a.ProtocolFee = binary.LittleEndian.Uint64(b[76:])
	copy(a.Signature[:], b[84:])
	return a, true
}

// Registration: signing bytes "GCARegistration" | key
func RefRegistrationSigningBytes(key [32]byte) []byte {
	return cat([]byte("GCARegistration"), key[:])
}

// RawServer mirrors an authorized server entry.
type RawServer struct {
	PublicKey [32]byte
	Banned    bool
	Location  string
	HttpPort  uint16
	TcpPort   uint16
	UdpPort   uint16
	Sig       [64]byte
}

// key | banned u8 | len u8 | location | http u16 | tcp u16 | udp u16 | sig
func RefServerBody(s RawServer) []byte {
	bn := byte(0)
	if s.Banned {
		bn = 1
	}
	return cat(s.PublicKey[:], []byte{bn, byte(len(s.Location))}, []byte(s.Location), le16(s.HttpPort), le16(s.TcpPort), le16(s.UdpPort))
}
func RefServerSigningBytes(s RawServer) []byte {
	return cat([]byte("AuthorizedServer"), RefServerBody(s))
}
func RefServerBytes(s RawServer) []byte { return cat(RefServerBody(s), s.Sig[:]) }

// RawMigration mirrors a migration order.
type RawMigration struct {
	Equipment  [32]byte
	NewGCA     [32]byte
	NewShortID uint32
	NewServers []RawServer
	Sig        [64]byte
}

func RefMigrationBody(m RawMigration) []byte {
	out := cat(m.Equipment[:], m.NewGCA[:], le32(m.NewShortID))
	for _, s := range m.NewServers {
		out = append(out, RefServerBytes(s)...)
	}
	return out
}
func RefMigrationSigningBytes(m RawMigration) []byte {
	return cat([]byte("EquipmentMigration"), RefMigrationBody(m))
}

// RawDeviceStats / RawWeek mirror the weekly statistics record.
type RawDeviceStats struct {
	PublicKey    [32]byte
	PowerOutputs [2016]uint64
	ImpactRates  [2016]float64
}
type RawWeek struct {
	Devices        []RawDeviceStats
	TimeslotOffset uint32
	Signature      [64]byte
}

// count u32 | { key | 2016 x u64 | 2016 x f64 bits } | offset u32 | sig
func RefWeekBody(w RawWeek) []byte {
	out := make([]byte, 0, 4+len(w.Devices)*(32+16*2016)+4)
	out = append(out, le32(uint32(len(w.Devices)))...)
	for i := range w.Devices {
		d := &w.Devices[i]
		out = append(out, d.PublicKey[:]...)
		for _, p := range d.PowerOutputs {
			out = append(out, le64(p)...)
		}
		for _, r := range d.ImpactRates {
			out = append(out, le64(math.Float64bits(r))...)
		}
	}
	return append(out, le32(w.TimeslotOffset)...)
}
func RefWeekSigningBytes(w RawWeek) []byte { return cat([]byte("AllDeviceStats"), RefWeekBody(w)) }
func RefWeekBytes(w RawWeek) []byte        { return cat(RefWeekBody(w), w.Signature[:]) }

// RefWeekStreamDecode decodes a concatenation of weekly records; rest is the
// number of trailing bytes that do not form a record.
func RefWeekStreamDecode(b []byte) (weeks []RawWeek, rest int) {
	for len(b) > 0 {
		if len(b) < 4 {
			return weeks, len(b)
		}
		n := int(binary.LittleEndian.Uint32(b))
		need := 4 + n*(32+16*2016) + 4 + 64
		if n > 1<<16 || len(b) < need {
			return weeks, len(b)
		}
		var w RawWeek
		w.Devices = make([]RawDeviceStats, n)
		i := 4
		for x := 0; x < n; x++ {
			copy(w.Devices[x].PublicKey[:], b[i:])
			i += 32
			for j := 0; j < 2016; j++ {
				w.Devices[x].PowerOutputs[j] = binary.LittleEndian.Uint64(b[i:])
				i += 8
			}
			for j := 0; j < 2016; j++ {
				w.Devices[x].ImpactRates[j] = math.Float64frombits(binary.LittleEndian.Uint64(b[i:]))
				i += 8
			}
		}
		w.TimeslotOffset = binary.LittleEndian.Uint32(b[i:])
		i += 4
		copy(w.Signature[:], b[i:])
		i += 64
		weeks = append(weeks, w)
		b = b[i:]
	}
	return weeks, 0
}

// RawReply is the structured form of a TCP sync reply (without the two byte
// length prefix):
//
//	device key [32] | window offset u32 | bitfield [504] |
//	new GCA [32] | new short id u32 | { server entry }* | migration sig [64] |
//	unix time u64 | server signature [64]
//
// Without a migration order the new GCA, new id and migration signature are
// zero.
type RawReply struct {
	DeviceKey [32]byte
	Offset    uint32
	Bitfield  [504]byte
	NewGCA    [32]byte
	NewID     uint32
	Servers   []RawServer
	MigSig    [64]byte
	Time      uint64
	Sig       [64]byte
}

// RefReplyBody is everything the server signs.
func RefReplyBody(r RawReply) []byte {
	out := cat(r.DeviceKey[:], le32(r.Offset), r.Bitfield[:], r.NewGCA[:], le32(r.NewID))
	for _, s := range r.Servers {
		out = append(out, RefServerBytes(s)...)
	}
	out = append(out, r.MigSig[:]...)
	return append(out, le64(r.Time)...)
}

func RefReplyBytes(r RawReply) []byte { return cat(RefReplyBody(r), r.Sig[:]) }

// RefReplyMigrationSigningBytes: what the current GCA signs for a migration
// order as it appears inside a reply.
func RefReplyMigrationSigningBytes(r RawReply) []byte {
	m := RawMigration{Equipment: r.DeviceKey, NewGCA: r.NewGCA, NewShortID: r.NewID, NewServers: r.Servers}
	return RefMigrationSigningBytes(m)
}

// RefReplyDecode parses reply bytes (no length prefix). listok is false when
// the server entries do not parse exactly.
func RefReplyDecode(b []byte) (r RawReply, listok bool, ok bool) {
	if len(b) < 576+64+72 {
		return r, false, false
	}
	copy(r.DeviceKey[:], b[0:32])
	r.Offset = binary.LittleEndian.Uint32(b[32:])
	copy(r.Bitfield[:], b[36:540])
	copy(r.NewGCA[:], b[540:572])
	r.NewID = binary.LittleEndian.Uint32(b[572:])
	end := len(b) - 136
	copy(r.MigSig[:], b[end:end+64])
	r.Time = binary.LittleEndian.Uint64(b[end+64:])
	copy(r.Sig[:], b[end+72:])
	i := 576
	listok = true
	for i < end {
		if i+34 > end {
			return r, false, true
		}
		var s RawServer
		copy(s.PublicKey[:], b[i:i+32])
		s.Banned = b[i+32] != 0
		ll := int(b[i+33])
		i += 34
		if i+ll+70 > end {
			return r, false, true
		}
		s.Location = string(b[i : i+ll])
		i += ll
		s.HttpPort = binary.LittleEndian.Uint16(b[i:])
		s.TcpPort = binary.LittleEndian.Uint16(b[i+2:])
		s.UdpPort = binary.LittleEndian.Uint16(b[i+4:])
		copy(s.Sig[:], b[i+6:i+70])
		i += 70
		r.Servers = append(r.Servers, s)
	}
	return r, listok, true
}

// RawMapEntry is one entry of the client's persisted server map:
// key [32] | banned u8 | location length u16 | location | http u16 | tcp u16 | udp u16
type RawMapEntry struct {
	Key      [32]byte
	Banned   bool
	Location string
	Ports    [3]uint16
}

func RefServerMapDecode(b []byte) (out []RawMapEntry, ok bool) {
	for len(b) > 0 {
		if len(b) < 35 {
			return out, false
		}
		var e RawMapEntry
		copy(e.Key[:], b[:32])
		e.Banned = b[32] != 0
		ll := int(binary.LittleEndian.Uint16(b[33:]))
		b = b[35:]
		if len(b) < ll+6 {
			return out, false
		}
		e.Location = string(b[:ll])
		b = b[ll:]
		for i := 0; i < 3; i++ {
			e.Ports[i] = binary.LittleEndian.Uint16(b[2*i:])
		}
		b = b[6:]
		out = append(out, e)
	}
	return out, true
}

func RefServerMapEncode(entries []RawMapEntry) []byte {
	var out []byte
	for _, e := range entries {
		bn := byte(0)
		if e.Banned {
			bn = 1
		}
		out = append(out, cat(e.Key[:], []byte{bn}, le16(uint16(len(e.Location))), []byte(e.Location), le16(e.Ports[0]), le16(e.Ports[1]), le16(e.Ports[2]))...)
	}
	return out
}
