package hx

import (
	"encoding/binary"
	"fmt"
	"net"
	"os"
	"path/filepath"
	"sync"
	"time"

	"github.com/glowlabs-org/gca-backend/client"
	"github.com/glowlabs-org/gca-backend/glow"
)

// EVal is the abstract report value of the client specification: fit = it
// is the two's complement of an integer of magnitude below 2^31 (survives
// the history's 32-bit storage); n = that integer, or the signed low 32 bits.
type EVal struct {
	Fit bool   `json:"fit"`
	N   int    `json:"n"`
	Tag string `json:"tag"`
}

func EValOf(u uint64) EVal {
	s := int64(u)
	if s > -(1<<31) && s < 1<<31 {
		return EVal{true, int(s), ""}
	}
	return EVal{false, int(int32(uint32(u))), fmt.Sprintf("x%016x", u)}
}

// CliEnv drives one real client on one directory.
type CliEnv struct {
	Abs
	T      *Trace
	Dir    string
	C      *client.Client
	Name   string // key name of the device
	ID     uint32
	Origin uint32

	mu      sync.Mutex
	gateOn  bool
	atRead  chan struct{}
	atDone  chan struct{}
	goRead  chan struct{}
	goDone  chan struct{}
	closing bool
	// YieldExtra sees every yield point of the client first (driver-specific gates)
	YieldExtra func(point string)
	starting   bool // NewClient has not returned yet
	held       []J  // events of the starting client, recorded after ClientStart
	Sink       *net.UDPConn
	SinkPort   int
	Ungated    bool // start the next client without the loop gates
	// Extra handles further hook events (sync round); it returns true if it did
	Extra func(c *client.Client, ev string, args []interface{}) bool
}

// NewCliEnv prepares a client directory: keys, GCA key, one server (whose
// UDP port is a sink owned by the harness), short id, history origin.
func NewCliEnv(abs Abs, t *Trace, root, name string, id, origin uint32, servers map[glow.PublicKey]client.GCAServer) (*CliEnv, error) {
	e := &CliEnv{Abs: abs, T: t, Dir: filepath.Join(root, name), Name: name, ID: id, Origin: origin,
		atRead: make(chan struct{}, 1), atDone: make(chan struct{}, 1), goRead: make(chan struct{}), goDone: make(chan struct{})}
	if err := os.MkdirAll(e.Dir, 0755); err != nil {
		return nil, err
	}
	pub := abs.KR.Gen(name)
	priv := abs.KR.Priv(name)
	os.WriteFile(filepath.Join(e.Dir, client.ClientKeyFile), append(append([]byte{}, pub[:]...), priv[:]...), 0644)
	g := abs.KR.Pub("gca")
	os.WriteFile(filepath.Join(e.Dir, client.GCAPubKeyFile), g[:], 0644)
	if servers == nil {
		sink, err := net.ListenUDP("udp", &net.UDPAddr{IP: net.ParseIP("127.0.0.1")})
		if err != nil {
			return nil, err
		}
		e.Sink = sink
		e.SinkPort = sink.LocalAddr().(*net.UDPAddr).Port
		go func() {
			buf := make([]byte, 2048)
			for {
				if _, _, err := sink.ReadFromUDP(buf); err != nil {
					return
				}
			}
		}()
		servers = map[glow.PublicKey]client.GCAServer{abs.KR.Gen("sink"): {Location: "127.0.0.1", UdpPort: uint16(e.SinkPort), TcpPort: 1, HttpPort: 1}}
	}
	raw, err := client.SerializeGCAServerMap(servers)
	if err != nil {
		return nil, err
	}
	os.WriteFile(filepath.Join(e.Dir, client.GCAServerMapFile), raw, 0644)
	var b4 [4]byte
	binary.LittleEndian.PutUint32(b4[:], id)
	os.WriteFile(filepath.Join(e.Dir, client.ShortIDFile), b4[:], 0644)
	binary.LittleEndian.PutUint32(b4[:], origin)
	os.WriteFile(filepath.Join(e.Dir, client.HistoryFile), b4[:], 0644)
	os.WriteFile(filepath.Join(e.Dir, client.EnergyFile), []byte("timestamp,energy (mWh)\n"), 0644)
	t.Emit(J{"a": "Setup", "origin": int(origin), "id": int(id), "key": name})
	return e, nil
}

// Install routes the client hooks to this environment.
func (e *CliEnv) Install() {
	client.VerifHook = func(c *client.Client, ev string, args []interface{}) {
		if e.Extra != nil && e.Extra(c, ev, args) {
			return
		}
		// events of a client whose NewClient call has not returned yet are recorded after the
		// ClientStart event (its loop goroutine may reach its first trace point before that)
		emit := func(j J) {
			e.mu.Lock()
			if e.starting {
				e.held = append(e.held, j)
				e.mu.Unlock()
				return
			}
			e.mu.Unlock()
			e.T.Emit(j)
		}
		switch ev {
		case "Send":
			raw := args[0].([]byte)
			id := le32dec(raw[0:])
			ts := le32dec(raw[4:])
			val := le64dec(raw[8:])
			var sig glow.Signature
			copy(sig[:], raw[16:])
			// ground truth for the client's own signature needs the verifier: the key is the device's
			ok := glow.Verify(e.KR.Pub(e.Name), RefReportSigningBytes(id, ts, val), sig)
			emit(J{"a": "Send", "id": int(e.ID), "d": J{"id": Clamp30(uint64(id)), "ts": Clamp30(uint64(ts)), "val": EValOf(val), "sigok": ok}})
		case "LoopRead":
			emit(J{"a": "LoopRead", "latest": Clamp30(uint64(args[0].(uint32)))})
		}
	}
	client.VerifYieldHook = func(c *client.Client, p string) {
		e.mu.Lock()
		on, closing := e.gateOn, e.closing
		e.mu.Unlock()
		if !on || closing {
			return
		}
		if e.YieldExtra != nil {
			e.YieldExtra(p)
		}
		switch p {
		case "loop:read":
			e.atRead <- struct{}{}
			<-e.goRead
		case "loop:done":
			e.atDone <- struct{}{}
			<-e.goDone
		}
	}
}

// Hist decodes history.dat: sparse [ts, signed value].
func (e *CliEnv) Hist() []Pair {
	b, err := os.ReadFile(filepath.Join(e.Dir, client.HistoryFile))
	out := []Pair{}
	if err != nil || len(b) < 4 {
		return out
	}
	origin := binary.LittleEndian.Uint32(b)
	for i := 4; i+4 <= len(b); i += 4 {
		v := binary.LittleEndian.Uint32(b[i:])
		if v != 0 {
			out = append(out, Pair{int(origin) + i/4 - 1, int(int32(v))})
		}
	}
	return out
}

// Start runs NewClient with the loop gated.
func (e *CliEnv) Start() error {
	e.mu.Lock()
	e.gateOn, e.closing = !e.Ungated, false
	e.starting = true
	e.mu.Unlock()
	c, err := client.NewClient(e.Dir)
	j := J{"a": "ClientStart", "ok": err == nil, "err": errStr(err), "hist": e.Hist(), "files": e.CliFilesJ(e.Dir)}
	if err == nil {
		j["state"] = e.CliStateJ(c.VerifState())
	}
	e.mu.Lock()
	e.T.Emit(j)
	for _, h := range e.held {
		e.T.Emit(h)
	}
	e.held, e.starting = nil, false
	e.mu.Unlock()
	if err != nil {
		return err
	}
	e.C = c
	return nil
}

// Iterate lets the loop perform exactly one iteration.
func (e *CliEnv) Iterate() bool {
	select {
	case <-e.atRead:
	case <-time.After(5 * time.Second):
		return false
	}
	e.goRead <- struct{}{}
	select {
	case <-e.atDone:
	case <-time.After(5 * time.Second):
		return false
	}
	e.T.Emit(J{"a": "LoopDone", "hist": e.Hist()})
	e.goDone <- struct{}{}
	return true
}

// WriteEnergy writes the energy file from (slot, reading text) rows.
func (e *CliEnv) WriteEnergy(lines []string) {
	s := "timestamp,energy (mWh)\n"
	for _, l := range lines {
		s += l + "\n"
	}
	os.WriteFile(filepath.Join(e.Dir, client.EnergyFile), []byte(s), 0644)
}

func (e *CliEnv) Close() {
	if e.C == nil {
		return
	}
	e.mu.Lock()
	gated := e.gateOn
	e.mu.Unlock()
	held := false // the loop is parked at the end of an iteration, waiting for goDone
	if gated {
		// A gated loop is asleep or parked before its next iteration. An iteration that has passed its
		// first trace point cannot be taken back: it is completed as an observed iteration, and the
		// loop is kept parked at its end until the stop has been signalled, so that it does no
		// unobserved work while the client closes.
		select {
		case <-e.atRead:
			e.goRead <- struct{}{}
			select {
			case <-e.atDone:
				e.T.Emit(J{"a": "LoopDone", "hist": e.Hist()})
				held = true
			case <-time.After(5 * time.Second):
			}
		case <-e.atDone:
			held = true
		case <-time.After(500 * time.Millisecond):
		}
	}
	done := make(chan struct{})
	go func() { e.C.Close(); close(done) }()
	// Close signals the stop at once and then waits for the goroutines
	time.Sleep(20 * time.Millisecond)
	e.mu.Lock()
	e.closing = true
	e.mu.Unlock()
	if held {
		e.goDone <- struct{}{}
	}
	for {
		select {
		case <-done:
			e.C = nil
			e.T.Emit(J{"a": "ClientClose"})
			return
		case <-e.atRead:
			e.goRead <- struct{}{}
		case <-e.atDone:
			e.goDone <- struct{}{}
		case <-time.After(10 * time.Second):
			e.T.Emit(J{"a": "ClientCloseHang"})
			return
		}
	}
}

// MapJ projects a server map: sorted [key name, {banned, loc, ports}].
func (x *Abs) MapJ(m map[glow.PublicKey]client.GCAServer) []Pair {
	out := []Pair{}
	for k, v := range m {
		out = append(out, Pair{x.KR.Name(k), J{"banned": v.Banned, "loc": v.Location, "ports": []int{int(v.HttpPort), int(v.TcpPort), int(v.UdpPort)}}})
	}
	SortPairsStr(out)
	return out
}

// CliStateJ projects the identity part of the client state.
func (x *Abs) CliStateJ(st client.VerifClientState) J {
	return J{"gca": x.KR.Name(st.GCAPubKey), "id": Clamp30(uint64(st.ShortID)), "srv": x.MapJ(st.Servers), "primary": x.KR.Name(st.PrimaryServer)}
}

// CliFilesJ decodes the three identity files of a client directory.
func (x *Abs) CliFilesJ(dir string) J {
	j := J{"gca": "none", "id": 0, "srv": []Pair{}}
	if b, err := os.ReadFile(filepath.Join(dir, client.GCAPubKeyFile)); err == nil && len(b) == 32 {
		var k glow.PublicKey
		copy(k[:], b)
		j["gca"] = x.KR.Name(k)
	}
	if b, err := os.ReadFile(filepath.Join(dir, client.ShortIDFile)); err == nil && len(b) == 4 {
		j["id"] = Clamp30(uint64(binary.LittleEndian.Uint32(b)))
	}
	if b, err := os.ReadFile(filepath.Join(dir, client.GCAServerMapFile)); err == nil {
		if ents, ok := RefServerMapDecode(b); ok {
			out := []Pair{}
			for _, e := range ents {
				var k glow.PublicKey = e.Key
				out = append(out, Pair{x.KR.Name(k), J{"banned": e.Banned, "loc": e.Location, "ports": []int{int(e.Ports[0]), int(e.Ports[1]), int(e.Ports[2])}}})
			}
			SortPairsStr(out)
			j["srv"] = out
		} else {
			j["srv"] = []Pair{{"undecodable", J{"banned": false, "loc": "", "ports": []int{0, 0, 0}}}}
		}
	}
	return j
}
