package hx

import (
	"encoding/binary"
	"fmt"
	"io"
	"net"
	"sync"
	"time"

	"github.com/glowlabs-org/gca-backend/client"
	"github.com/glowlabs-org/gca-backend/glow"
	"github.com/glowlabs-org/gca-backend/server"
)

// Register records a signature that was not made by the harness (e.g. the
// server's signature on a genuine reply) with its signer and message.
func (r *SigReg) Register(sig glow.Signature, by string, msg []byte) {
	r.register(sig, by, msg)
}

// SyncFetch performs the TCP sync request for a short id against the real
// server and returns the reply body (without the length prefix).
func (e *Env) SyncFetch(id uint32) (body []byte, refused bool, err error) {
	_, tp, _ := e.Srv.Ports()
	conn, err := net.DialTimeout("tcp", fmt.Sprintf("127.0.0.1:%d", tp), 3*time.Second)
	if err != nil {
		return nil, false, err
	}
	defer conn.Close()
	conn.SetDeadline(time.Now().Add(5 * time.Second))
	conn.Write(le32(id))
	var pre [2]byte
	n, err := io.ReadFull(conn, pre[:])
	if err != nil {
		if n == 1 && pre[0] == 0 {
			return nil, true, nil
		}
		return nil, false, err
	}
	body = make([]byte, binary.LittleEndian.Uint16(pre[:]))
	if _, err := io.ReadFull(conn, body); err != nil {
		return nil, false, err
	}
	return body, false, nil
}

func timeClass(t uint64) string {
	now := uint64(time.Now().Unix())
	if t+24*3600 < now {
		return "old"
	}
	if t > now+24*3600 {
		return "future"
	}
	return "fresh"
}

// DescribeReply gives the abstract description of reply bytes.
func (x *Abs) DescribeReply(b []byte) J {
	r, listok, ok := RefReplyDecode(b)
	if !ok {
		return J{"len": len(b), "key": "none", "offset": 0, "bits": []int{}, "mig": J{"present": false, "newgca": "none", "newid": 0, "sig": NoSig},
			"servers": []J{}, "listok": false, "time": "fresh", "sig": NoSig}
	}
	bits := []int{}
	for i := 0; i < 4032; i++ {
		if r.Bitfield[i/8]&(1<<(i%8)) != 0 {
			bits = append(bits, i)
		}
	}
	present := r.NewGCA != [32]byte{}
	mig := J{"present": present, "newgca": "none", "newid": Clamp30(uint64(r.NewID)), "sig": NoSig}
	if present {
		mig["newgca"] = x.KR.Name(r.NewGCA)
		mig["sig"] = x.SR.Describe(r.MigSig, RefReplyMigrationSigningBytes(r))
	}
	if !listok {
		r.Servers = nil
	}
	return J{"len": len(b), "key": x.KR.Name(r.DeviceKey), "offset": Clamp30(uint64(r.Offset)), "bits": bits, "mig": mig,
		"servers": x.Servers(r.Servers), "listok": listok, "time": timeClass(r.Time),
		"sig": x.SR.Describe(r.Sig, b[:len(b)-64])}
}

// EmitSyncResp records what the real server answered, decoded with the
// reference decoder. The genuine server signature is registered (after a
// check with the verifier) so that tampered copies are judged from the record.
func (e *Env) EmitSyncResp(id uint32, body []byte, refused bool) {
	j := J{"a": "SyncResp", "id": Clamp30(uint64(id)), "refused": refused}
	if !refused {
		var sig glow.Signature
		copy(sig[:], body[len(body)-64:])
		if glow.Verify(e.KR.Pub("srv"), body[:len(body)-64], sig) {
			e.SR.Register(sig, "srv", body[:len(body)-64])
		}
		d := e.DescribeReply(body)
		for k, v := range d {
			j[k] = v
		}
		sd := d["sig"].(SigDesc)
		j["sigok"] = sd.Ok && sd.By == "srv"
		j["fresh"] = d["time"] == "fresh"
	}
	e.T.Emit(j)
}

// FakeTCP is a harness-owned TCP server playing the role of a GCA server.
type FakeTCP struct {
	L    net.Listener
	Port uint16
	mu   sync.Mutex
	// Mode: "reply" writes the 2 byte prefix and Body; "refuse" closes the
	// listener side immediately; "reset" closes after reading the request;
	// "short" writes the prefix and half of the body; "hang" keeps the
	// connection open without answering until HangFor elapsed.
	Mode    string
	Body    []byte
	Prefix  int // length announced in the prefix; -1 = len(Body)
	HangFor time.Duration
	Hits    int
	// every endpoint also owns a UDP port (a sink): the port identifies the server a datagram is sent to
	UDP     *net.UDPConn
	UDPPort uint16
}

func NewFakeTCP() (*FakeTCP, error) {
	l, err := net.Listen("tcp", "127.0.0.1:0")
	if err != nil {
		return nil, err
	}
	f := &FakeTCP{L: l, Port: uint16(l.Addr().(*net.TCPAddr).Port), Mode: "reply", Prefix: -1}
	if u, err := net.ListenUDP("udp", &net.UDPAddr{IP: net.ParseIP("127.0.0.1")}); err == nil {
		f.UDP, f.UDPPort = u, uint16(u.LocalAddr().(*net.UDPAddr).Port)
		go func() {
			buf := make([]byte, 2048)
			for {
				if _, _, err := u.ReadFromUDP(buf); err != nil {
					return
				}
			}
		}()
	}
	go func() {
		for {
			conn, err := l.Accept()
			if err != nil {
				return
			}
			go f.serve(conn)
		}
	}()
	return f, nil
}

func (f *FakeTCP) Set(mode string, body []byte, prefix int) {
	f.mu.Lock()
	f.Mode, f.Body, f.Prefix = mode, body, prefix
	f.mu.Unlock()
}

func (f *FakeTCP) serve(conn net.Conn) {
	defer conn.Close()
	f.mu.Lock()
	mode, body, prefix, hang := f.Mode, f.Body, f.Prefix, f.HangFor
	f.Hits++
	f.mu.Unlock()
	if mode == "refuse" {
		return
	}
	var req [4]byte
	conn.SetDeadline(time.Now().Add(5 * time.Second))
	io.ReadFull(conn, req[:])
	switch mode {
	case "reset":
		return
	case "hang":
		time.Sleep(hang)
		return
	case "zero":
		conn.Write([]byte{0})
		return
	}
	if prefix < 0 {
		prefix = len(body)
	}
	conn.Write(le16(uint16(prefix)))
	if mode == "short" {
		conn.Write(body[:len(body)/2])
		return
	}
	conn.Write(body)
}

func (f *FakeTCP) Close() {
	f.L.Close()
	if f.UDP != nil {
		f.UDP.Close()
	}
}

func (f *FakeTCP) AsServer() client.GCAServer {
	return client.GCAServer{Location: "127.0.0.1", TcpPort: f.Port, UdpPort: 9, HttpPort: 9}
}

// ParseVia lets a (bare) client parse what the given address serves and
// records the outcome next to the abstract description of the reply.
func (x *Abs) ParseVia(t *Trace, cl *client.Client, srv client.GCAServer, body []byte, ctx J, cls string) bool {
	var off uint32
	var bf [504]byte
	var ng glow.PublicKey
	var nid uint32
	var servers []server.AuthorizedServer
	var err error
	p := catch(func() {
		off, bf, ng, nid, servers, err = cl.VerifServerSync(srv, x.KR.Pub(ctx["server"].(string)), x.KR.Pub(ctx["gca"].(string)))
	})
	bits := []int{}
	for i := 0; i < 4032; i++ {
		if bf[i/8]&(1<<(i%8)) != 0 {
			bits = append(bits, i)
		}
	}
	res := J{"ok": err == nil && p == "", "err": errStr(err), "panic": p, "offset": Clamp30(uint64(off)), "bits": bits,
		"newgca": x.KR.Name(ng), "newid": Clamp30(uint64(nid)), "servers": x.Servers(rawServers(servers))}
	t.Emit(J{"a": "Parse", "cls": cls, "reply": x.DescribeReply(body), "ctx": ctx, "res": res})
	return err == nil && p == ""
}
