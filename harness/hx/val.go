package hx

import (
	"encoding/json"
	"fmt"
	"math"
	"sort"
	"sync"
)

// Val is the abstract form of a 64-bit power value (see Server.tla):
// class "s" small (< 2^30, N is the value), "h" huge non-negative
// (2^30 .. 2^63-2), "m" exactly 2^63-1, "g" negative encoding (>= 2^63).
// For the big classes N is an identity index.
type Val struct {
	C string `json:"c"`
	N int    `json:"n"`
}

const SmallLimit = 1 << 30

var (
	bigMu  sync.Mutex
	bigIdx = map[uint64]int{}
)

// ValOf classifies a raw value. The classification is a pure function of the
// value; the index of big values is injective, so identity is preserved.
func ValOf(u uint64) Val {
	if u < SmallLimit {
		return Val{"s", int(u)}
	}
	c := "h"
	if u == math.MaxInt64 {
		return Val{"m", 0}
	} else if u > math.MaxInt64 {
		c = "g"
	}
	bigMu.Lock()
	defer bigMu.Unlock()
	i, ok := bigIdx[u]
	if !ok {
		i = len(bigIdx) + 1
		bigIdx[u] = i
	}
	return Val{c, i}
}

// Clamp30 keeps an unsigned number inside TLC's integer range; values of
// 2^30 and above are all represented as 2^30.
func Clamp30(u uint64) int {
	if u >= SmallLimit {
		return SmallLimit
	}
	return int(u)
}

// CapLimit is the largest capacity represented exactly (cap*135 must stay
// below 2^31 in TLC).
const CapLimit = 1 << 23

func ClampCap(u uint64) int {
	if u >= CapLimit {
		return CapLimit
	}
	return int(u)
}

// Pair is a [key, value] entry of a sparse map, encoded as a JSON array.
type Pair [2]interface{}

// SortPairsInt sorts pairs with integer keys.
func SortPairsInt(p []Pair) {
	sort.Slice(p, func(i, j int) bool { return p[i][0].(int) < p[j][0].(int) })
}

func SortPairsStr(p []Pair) {
	sort.Slice(p, func(i, j int) bool { return p[i][0].(string) < p[j][0].(string) })
}

// J is a JSON object.
type J = map[string]interface{}

func MustJSON(v interface{}) string {
	b, err := json.Marshal(v)
	if err != nil {
		panic(fmt.Sprintf("hx: json: %v", err))
	}
	return string(b)
}

func F64Bits(f float64) string { return fmt.Sprintf("%016x", math.Float64bits(f)) }
