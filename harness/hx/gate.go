package hx

import (
	"runtime"
	"strconv"
	"strings"
	"sync"
	"time"

	"github.com/glowlabs-org/gca-backend/server"
)

// Gate blocks the implementation at a yield point (a place where an
// operation runs between two critical sections), so that a driver can
// reproduce a chosen interleaving deterministically.
type Gate struct {
	point   string
	mu      sync.Mutex
	armed   bool
	once    bool
	reached chan *server.GCAServer
	release chan struct{}
}

// NewGate installs a gate at the named yield point. It is not armed yet.
func (e *Env) NewGate(point string) *Gate {
	g := &Gate{point: point, reached: make(chan *server.GCAServer, 16), release: make(chan struct{})}
	prev := e.Yield
	e.Yield = func(s *server.GCAServer, p string) {
		if p == point {
			g.mu.Lock()
			armed := g.armed
			rel := g.release
			if armed && g.once {
				g.armed = false // only the first arrival is held
			}
			g.mu.Unlock()
			if armed {
				g.reached <- s
				<-rel
			}
		}
		if prev != nil {
			prev(s, p)
		}
	}
	return g
}

func (g *Gate) Arm() {
	g.mu.Lock()
	g.armed = true
	g.once = false
	g.mu.Unlock()
}

// ArmOnce holds only the first goroutine that arrives.
func (g *Gate) ArmOnce() {
	g.mu.Lock()
	g.armed = true
	g.once = true
	g.mu.Unlock()
}

// WaitReached waits until some goroutine is blocked at the gate.
func (g *Gate) WaitReached(d time.Duration) *server.GCAServer {
	select {
	case s := <-g.reached:
		return s
	case <-time.After(d):
		return nil
	}
}

// Release disarms the gate and lets every blocked goroutine continue.
func (g *Gate) Release() {
	g.mu.Lock()
	g.armed = false
	close(g.release)
	g.release = make(chan struct{})
	g.mu.Unlock()
}

// GoID is the id of the calling goroutine (drivers use it to tell which of
// several concurrent operations a hook call belongs to).
func GoID() uint64 {
	var buf [64]byte
	n := runtime.Stack(buf[:], false)
	// "goroutine 123 [running]:"
	f := strings.Fields(string(buf[:n]))
	if len(f) < 2 {
		return 0
	}
	id, _ := strconv.ParseUint(f[1], 10, 64)
	return id
}
