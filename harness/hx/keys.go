// Package hx is the verification harness library: named keys, abstract
// signature bookkeeping, reference encoders written from the documented
// layouts, projection of implementation state to the abstract state of the
// TLA+ specifications, and the ndjson trace writer.
package hx

import (
	"crypto/sha256"
	"encoding/binary"
	"encoding/hex"
	"encoding/json"
	"fmt"
	"math/big"
	"os"
	"strings"
	"sync"

	"github.com/ethereum/go-ethereum/crypto"
	"github.com/glowlabs-org/gca-backend/glow"
)

// KeyRing maps key names used in the specifications to real key pairs.
type KeyRing struct {
	mu    sync.Mutex
	pub   map[string]glow.PublicKey
	priv  map[string]glow.PrivateKey
	names map[glow.PublicKey]string
}

func NewKeyRing() *KeyRing {
	return &KeyRing{pub: map[string]glow.PublicKey{}, priv: map[string]glow.PrivateKey{}, names: map[glow.PublicKey]string{}}
}

// Gen creates (or returns) the key pair with the given name.
func (k *KeyRing) Gen(name string) glow.PublicKey {
	k.mu.Lock()
	defer k.mu.Unlock()
	if p, ok := k.pub[name]; ok {
		return p
	}
	pub, priv := glow.GenerateKeyPair()
	k.pub[name], k.priv[name], k.names[pub] = pub, priv, name
	return pub
}

// Add registers an existing key pair (e.g. the server's own key).
func (k *KeyRing) Add(name string, pub glow.PublicKey, priv glow.PrivateKey) {
	k.mu.Lock()
	defer k.mu.Unlock()
	k.pub[name], k.priv[name], k.names[pub] = pub, priv, name
}

// AddPub registers a public key whose private half is unknown.
func (k *KeyRing) AddPub(name string, pub glow.PublicKey) {
	k.mu.Lock()
	defer k.mu.Unlock()
	k.pub[name], k.names[pub] = pub, name
}

func (k *KeyRing) Pub(name string) glow.PublicKey {
	k.mu.Lock()
	defer k.mu.Unlock()
	p, ok := k.pub[name]
	if !ok {
		panic("hx: unknown key " + name)
	}
	return p
}

func (k *KeyRing) Priv(name string) glow.PrivateKey {
	k.mu.Lock()
	defer k.mu.Unlock()
	p, ok := k.priv[name]
	if !ok {
		panic("hx: no private key for " + name)
	}
	return p
}

// Name returns the specification name of a public key; unknown keys are
// named by a prefix of their hex, the all-zero key is "zero".
func (k *KeyRing) Name(pub glow.PublicKey) string {
	k.mu.Lock()
	defer k.mu.Unlock()
	if n, ok := k.names[pub]; ok {
		return n
	}
	if pub == (glow.PublicKey{}) {
		return "zero"
	}
	return "hex:" + hex.EncodeToString(pub[:6])
}

// SigDesc is the abstract signature of the specifications.
type SigDesc struct {
	By  string `json:"by"`
	Ok  bool   `json:"ok"`
	Tag string `json:"tag"`
}

var NoSig = SigDesc{By: "none", Ok: false, Tag: "none"}

type sigInfo struct {
	by  string
	msg [32]byte // sha256 of the message that was signed
	tag string
}

// SigReg records the ground truth of every signature the harness produces:
// which key made it and over which bytes. Validity in the abstract model is
// decided from this record, never by calling the implementation's Verify.
type SigReg struct {
	mu sync.Mutex
	m  map[glow.Signature]*sigInfo
	n  int
	kr *KeyRing

	journal *os.File
}

func NewSigReg(kr *KeyRing) *SigReg {
	return &SigReg{m: map[glow.Signature]*sigInfo{}, kr: kr}
}

func (r *SigReg) register(sig glow.Signature, by string, msg []byte) {
	r.mu.Lock()
	defer r.mu.Unlock()
	if _, ok := r.m[sig]; ok {
		return
	}
	r.n++
	info := &sigInfo{by: by, msg: sha256.Sum256(msg), tag: fmt.Sprintf("s%d", r.n)}
	r.m[sig] = info
	if r.journal != nil {
		fmt.Fprintf(r.journal, "%x %s %x %s\n", sig[:], by, info.msg[:], info.tag)
	}
}

// Journal makes the registry write every new record through to a file, so
// that another process (the parent of a child that gets killed) can read the
// ground truth of the signatures the child made.
func (r *SigReg) Journal(path string) error {
	f, err := os.OpenFile(path, os.O_APPEND|os.O_CREATE|os.O_WRONLY, 0644)
	if err != nil {
		return err
	}
	r.mu.Lock()
	r.journal = f
	r.mu.Unlock()
	return nil
}

// LoadJournal reads the records another process wrote; they replace records
// for the same signature bytes.
func (r *SigReg) LoadJournal(path string) {
	b, err := os.ReadFile(path)
	if err != nil {
		return
	}
	r.mu.Lock()
	defer r.mu.Unlock()
	for _, line := range strings.Split(string(b), "\n") {
		var sh, by, mh, tag string
		if n, _ := fmt.Sscanf(line, "%s %s %s %s", &sh, &by, &mh, &tag); n != 4 {
			continue
		}
		sb, _ := hex.DecodeString(sh)
		mb, _ := hex.DecodeString(mh)
		if len(sb) != 64 || len(mb) != 32 {
			continue
		}
		var sig glow.Signature
		var info sigInfo
		copy(sig[:], sb)
		copy(info.msg[:], mb)
		info.by, info.tag = by, tag
		r.m[sig] = &info
		r.n += 1
	}
	r.n += 100000 // tags made from now on cannot collide with loaded ones
}

// Sign signs msg with the named key using the implementation's signer
// (deterministic nonce) and records the ground truth.
func (r *SigReg) Sign(by string, msg []byte) glow.Signature {
	sig := glow.Sign(msg, r.kr.Priv(by))
	r.register(sig, by, msg)
	return sig
}

// SignAlt produces a second, different, valid signature by the same key over
// the same message (another nonce), i.e. a re-signed variant.
func (r *SigReg) SignAlt(by string, msg []byte, variant int) glow.Signature {
	priv := r.kr.Priv(by)
	curve := crypto.S256()
	N := curve.Params().N
	z := new(big.Int).SetBytes(crypto.Keccak256(msg))
	d := new(big.Int).SetBytes(priv[:])
	for ctr := 0; ; ctr++ {
		var seed [8]byte
		binary.LittleEndian.PutUint32(seed[:4], uint32(variant))
		binary.LittleEndian.PutUint32(seed[4:], uint32(ctr))
		h := sha256.Sum256(append(append(seed[:], priv[:]...), msg...))
		k := new(big.Int).SetBytes(h[:])
		k.Mod(k, N)
		if k.Sign() == 0 {
			continue
		}
		x, _ := curve.ScalarBaseMult(k.Bytes())
		rr := new(big.Int).Mod(x, N)
		if rr.Sign() == 0 {
			continue
		}
		kinv := new(big.Int).ModInverse(k, N)
		s := new(big.Int).Mul(rr, d)
		s.Add(s, z).Mul(s, kinv).Mod(s, N)
		if s.Sign() == 0 {
			continue
		}
		half := new(big.Int).Rsh(N, 1)
		if s.Cmp(half) > 0 {
			s.Sub(N, s)
		}
		var sig glow.Signature
		rr.FillBytes(sig[:32])
		s.FillBytes(sig[32:])
		if sig == glow.Sign(msg, priv) {
			continue
		}
		if !glow.Verify(r.kr.Pub(by), msg, sig) {
			panic("hx: alternative signature does not verify")
		}
		r.register(sig, by, msg)
		return sig
	}
}

// Describe returns the abstract description of a signature found on an object
// whose correct signing bytes are expect.
func (r *SigReg) Describe(sig glow.Signature, expect []byte) SigDesc {
	if sig == (glow.Signature{}) {
		return NoSig
	}
	r.mu.Lock()
	defer r.mu.Unlock()
	info, ok := r.m[sig]
	if !ok {
		r.n++
		info = &sigInfo{by: "none", tag: fmt.Sprintf("u%d", r.n)}
		r.m[sig] = info
		if r.journal != nil {
			fmt.Fprintf(r.journal, "%x %s %x %s\n", sig[:], "none", info.msg[:], info.tag)
		}
	}
	return SigDesc{By: info.by, Ok: info.by != "none" && info.msg == sha256.Sum256(expect), Tag: info.tag}
}

// Tag returns the identity tag of signature bytes.
func (r *SigReg) Tag(sig glow.Signature) string {
	return r.Describe(sig, nil).Tag
}

// LoadOrSave makes parent and child processes share one set of keys: the
// first caller writes the ring to path, later callers read it.
func (k *KeyRing) LoadOrSave(path string) error {
	type kp struct{ Pub, Priv string }
	if b, err := os.ReadFile(path); err == nil {
		m := map[string]kp{}
		if err := json.Unmarshal(b, &m); err != nil {
			return err
		}
		for name, v := range m {
			var pub glow.PublicKey
			var priv glow.PrivateKey
			pb, _ := hex.DecodeString(v.Pub)
			vb, _ := hex.DecodeString(v.Priv)
			copy(pub[:], pb)
			copy(priv[:], vb)
			k.Add(name, pub, priv)
		}
		return nil
	}
	for _, n := range []string{"temp", "gca", "gca2", "x1", "d1", "d2", "d3", "d4", "d9"} {
		k.Gen(n)
	}
	k.mu.Lock()
	m := map[string]kp{}
	for name, pub := range k.pub {
		priv := k.priv[name]
		m[name] = kp{hex.EncodeToString(pub[:]), hex.EncodeToString(priv[:])}
	}
	k.mu.Unlock()
	b, _ := json.Marshal(m)
	return os.WriteFile(path, b, 0644)
}

// Has reports whether a key of that name is known.
func (k *KeyRing) Has(name string) bool {
	k.mu.Lock()
	defer k.mu.Unlock()
	_, ok := k.pub[name]
	return ok
}

// secp256k1 group order
var curveN, _ = new(big.Int).SetString("fffffffffffffffffffffffffffffffebaaedce6af48a03bbfd25e8cd0364141", 16)

// Malleate returns the other encoding (r, N-s) of an ECDSA signature (r, s): algebraically valid for the
// same message and key, but not a signature the signer produced (only the low-s form is canonical).
func Malleate(sig glow.Signature) glow.Signature {
	sv := new(big.Int).SetBytes(sig[32:64])
	ns := new(big.Int).Sub(curveN, sv)
	var out glow.Signature
	copy(out[:32], sig[:32])
	b := ns.Bytes()
	copy(out[64-len(b):], b)
	return out
}
