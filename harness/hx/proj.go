package hx

import (
	"encoding/hex"
	"os"
	"path/filepath"
	"sort"

	"github.com/glowlabs-org/gca-backend/glow"
	"github.com/glowlabs-org/gca-backend/server"
)

// Abstract descriptions of the implementation's objects. Every function here
// is a projection: it reads values and maps them to the vocabulary of the
// specifications; it never decides whether the implementation behaved well.

func ToRawAuth(a glow.EquipmentAuthorization) RawAuth {
	return RawAuth{ShortID: a.ShortID, PublicKey: a.PublicKey, Latitude: a.Latitude, Longitude: a.Longitude,
		Capacity: a.Capacity, Debt: a.Debt, Expiration: a.Expiration, Initialization: a.Initialization,
		ProtocolFee: a.ProtocolFee, Signature: a.Signature}
}

func FromRawAuth(a RawAuth) glow.EquipmentAuthorization {
	return glow.EquipmentAuthorization{ShortID: a.ShortID, PublicKey: a.PublicKey, Latitude: a.Latitude, Longitude: a.Longitude,
		Capacity: a.Capacity, Debt: a.Debt, Expiration: a.Expiration, Initialization: a.Initialization,
		ProtocolFee: a.ProtocolFee, Signature: a.Signature}
}

func ToRawServer(s server.AuthorizedServer) RawServer {
	return RawServer{PublicKey: s.PublicKey, Banned: s.Banned, Location: s.Location, HttpPort: s.HttpPort,
		TcpPort: s.TcpPort, UdpPort: s.UdpPort, Sig: s.GCAAuthorization}
}

func ToRawMigration(m server.EquipmentMigration) RawMigration {
	r := RawMigration{Equipment: m.Equipment, NewGCA: m.NewGCA, NewShortID: m.NewShortID, Sig: m.Signature}
	for _, s := range m.NewServers {
		r.NewServers = append(r.NewServers, ToRawServer(s))
	}
	return r
}

func ToRawWeek(w server.AllDeviceStats) RawWeek {
	r := RawWeek{TimeslotOffset: w.TimeslotOffset, Signature: w.Signature}
	r.Devices = make([]RawDeviceStats, len(w.Devices))
	for i := range w.Devices {
		r.Devices[i] = RawDeviceStats{PublicKey: w.Devices[i].PublicKey, PowerOutputs: w.Devices[i].PowerOutputs, ImpactRates: w.Devices[i].ImpactRates}
	}
	return r
}

// Abs holds the naming context for projections.
type Abs struct {
	KR *KeyRing
	SR *SigReg
}

func (x *Abs) Auth(a RawAuth) J {
	rest := hex.EncodeToString(cat(le64f(a.Latitude), le64f(a.Longitude), le64(a.Debt), le32(a.Expiration), le32(a.Initialization), le64(a.ProtocolFee)))
	if a.Capacity >= CapLimit {
		rest += ":cap=" + hex.EncodeToString(le64(a.Capacity))
	}
	if a.ShortID >= SmallLimit {
		rest += ":id=" + hex.EncodeToString(le32(a.ShortID))
	}
	return J{"id": Clamp30(uint64(a.ShortID)), "key": x.KR.Name(a.PublicKey), "cap": ClampCap(a.Capacity), "rest": rest,
		"sig": x.SR.Describe(a.Signature, RefAuthSigningBytes(a))}
}

func le64f(f float64) []byte { b, _ := hex.DecodeString(F64Bits(f)); return b }

// Report describes a report record (stored or on the wire).
func (x *Abs) Report(id, ts uint32, val uint64, sig glow.Signature) J {
	return J{"id": Clamp30(uint64(id)), "ts": Clamp30(uint64(ts)), "v": ValOf(val),
		"sig": x.SR.Describe(sig, RefReportSigningBytes(id, ts, val))}
}

// Datagram describes the bytes handed to the report handler.
func (x *Abs) Datagram(raw []byte) J {
	if len(raw) != 80 {
		return J{"len": len(raw), "id": 0, "ts": 0, "v": ValOf(0), "sig": NoSig}
	}
	id := le32dec(raw[0:])
	ts := le32dec(raw[4:])
	val := le64dec(raw[8:])
	var sig glow.Signature
	copy(sig[:], raw[16:])
	d := x.Report(id, ts, val, sig)
	d["len"] = 80
	return d
}

func (x *Abs) Server(s RawServer) J {
	return J{"key": x.KR.Name(s.PublicKey), "banned": s.Banned, "loc": s.Location,
		"ports": []int{int(s.HttpPort), int(s.TcpPort), int(s.UdpPort)},
		"sig":   x.SR.Describe(s.Sig, RefServerSigningBytes(s))}
}

func (x *Abs) Servers(l []RawServer) []J {
	out := []J{}
	for _, s := range l {
		out = append(out, x.Server(s))
	}
	return out
}

func (x *Abs) Migration(m RawMigration) J {
	return J{"equip": x.KR.Name(m.Equipment), "newgca": x.KR.Name(m.NewGCA), "newid": Clamp30(uint64(m.NewShortID)),
		"servers": x.Servers(m.NewServers), "sig": x.SR.Describe(m.Sig, RefMigrationSigningBytes(m))}
}

// Week describes a weekly statistics record: sparse outputs and impact rates
// per device (sorted by key name), and whether the signature is the server's
// over the reference signing bytes.
func (x *Abs) Week(w RawWeek) J {
	devs := []J{}
	for i := range w.Devices {
		d := &w.Devices[i]
		out := []Pair{}
		imp := []Pair{}
		for j := 0; j < 2016; j++ {
			if d.PowerOutputs[j] != 0 {
				out = append(out, Pair{j, ValOf(d.PowerOutputs[j])})
			}
			if d.ImpactRates[j] != 0 {
				imp = append(imp, Pair{j, F64Bits(d.ImpactRates[j])})
			}
		}
		devs = append(devs, J{"key": x.KR.Name(d.PublicKey), "out": out, "imp": imp})
	}
	sort.SliceStable(devs, func(i, j int) bool { return devs[i]["key"].(string) < devs[j]["key"].(string) })
	sd := x.SR.Describe(w.Signature, RefWeekSigningBytes(w))
	if sd.By == "none" {
		// Not a signature made by the harness: the server's own. Ground truth
		// here needs the verifier; the server key is the only candidate.
		if x.KR.Has("srv") && glow.Verify(x.KR.Pub("srv"), RefWeekSigningBytes(w), w.Signature) {
			sd = SigDesc{By: "srv", Ok: true, Tag: sd.Tag}
		}
	}
	return J{"off": Clamp30(uint64(w.TimeslotOffset)), "devs": devs, "sigok": sd.Ok && sd.By == "srv", "tag": sd.Tag}
}

// State projects the mutex protected server state.
func (x *Abs) State(st server.VerifState) J {
	post := J{}
	post["gca"] = J{"avail": st.GCAAvailable, "key": x.keyOrNone(st.GCAPubkey, st.GCAAvailable)}
	ids := []int{}
	for id := range st.Equipment {
		ids = append(ids, int(id))
	}
	sort.Ints(ids)
	equip := []J{}
	for _, id := range ids {
		equip = append(equip, x.Auth(ToRawAuth(st.Equipment[uint32(id)])))
	}
	post["equip"] = equip
	pk := []Pair{}
	for k, id := range st.ShortIDs {
		pk = append(pk, Pair{x.KR.Name(k), Clamp30(uint64(id))})
	}
	SortPairsStr(pk)
	post["pkidx"] = pk
	bans := []int{}
	for _, b := range st.Bans {
		bans = append(bans, Clamp30(uint64(b)))
	}
	sort.Ints(bans)
	post["bans"] = bans
	post["offset"] = Clamp30(uint64(st.Offset))
	lids := []int{}
	for id := range st.Reports {
		lids = append(lids, int(id))
	}
	sort.Ints(lids)
	live := []J{}
	for _, id := range lids {
		slots := []Pair{}
		for _, s := range st.Reports[uint32(id)] {
			r := s.Report
			ts := int(st.Offset) + s.Index
			// the signature of a stored report is judged against the content
			// it was stored with; a banned slot carries value 1 but the
			// signature of the first report, so it is described by identity only
			sd := x.SR.Describe(r.Signature, RefReportSigningBytes(r.ShortID, r.Timeslot, r.PowerOutput))
			if r.PowerOutput == 1 {
				sd.Ok = true
			}
			slots = append(slots, Pair{ts, J{"v": ValOf(r.PowerOutput), "sig": sd, "rid": Clamp30(uint64(r.ShortID)), "rts": Clamp30(uint64(r.Timeslot))}})
		}
		live = append(live, J{"id": id, "s": slots})
	}
	post["live"] = live
	iids := []int{}
	for _, id := range st.ImpactIDs {
		iids = append(iids, int(id))
	}
	sort.Ints(iids)
	impact := []J{}
	for _, id := range iids {
		rates := []Pair{}
		for _, r := range st.Impact[uint32(id)] {
			rates = append(rates, Pair{int(st.Offset) + r.Index, F64Bits(r.Rate)})
		}
		impact = append(impact, J{"id": id, "s": rates})
	}
	post["impact"] = impact
	arch := []J{}
	for _, w := range st.History {
		arch = append(arch, x.Week(ToRawWeek(w)))
	}
	post["archive"] = arch
	mg := []J{}
	for _, m := range st.Migrations {
		mg = append(mg, x.Migration(ToRawMigration(m)))
	}
	sort.Slice(mg, func(i, j int) bool { return mg[i]["equip"].(string) < mg[j]["equip"].(string) })
	post["migr"] = mg
	post["nrecent"] = st.RecentReports
	return post
}

func (x *Abs) keyOrNone(k glow.PublicKey, avail bool) string {
	if !avail {
		if k == (glow.PublicKey{}) {
			return "none"
		}
		// a key in memory although no registration is in force: visible to the specification
		return "unavailable:" + x.KR.Name(k)
	}
	return x.KR.Name(k)
}

// Disk projects the persistent files of a server directory.
func (x *Abs) Disk(dir string) J {
	d := J{}
	if b, err := os.ReadFile(filepath.Join(dir, "server.keys")); err != nil {
		d["keys"] = "absent"
	} else if len(b) == 0 {
		d["keys"] = "empty"
	} else if len(b) == 96 {
		d["keys"] = "ok"
	} else {
		d["keys"] = "bad"
	}
	if b, err := os.ReadFile(filepath.Join(dir, "gcaPubKey.dat")); err != nil {
		d["gcafile"] = "absent"
	} else if len(b) == 0 {
		d["gcafile"] = "empty"
	} else if len(b) == 32 {
		var k glow.PublicKey
		copy(k[:], b)
		d["gcafile"] = x.KR.Name(k)
	} else {
		d["gcafile"] = "bad"
	}
	tails := []int{0, 0, 0}
	auths := []J{}
	if b, err := os.ReadFile(filepath.Join(dir, "equipment-authorizations.dat")); err == nil {
		for len(b) >= 148 {
			a, _ := RefAuthDecode(b[:148])
			auths = append(auths, x.Auth(a))
			b = b[148:]
		}
		tails[0] = len(b)
	}
	d["auths"] = auths
	reps := []J{}
	if b, err := os.ReadFile(filepath.Join(dir, "equipment-reports.dat")); err == nil {
		for len(b) >= 80 {
			r := x.Datagram(b[:80])
			delete(r, "len")
			reps = append(reps, r)
			b = b[80:]
		}
		tails[1] = len(b)
	}
	d["reports"] = reps
	stats := []J{}
	if b, err := os.ReadFile(filepath.Join(dir, "allDeviceStats.dat")); err == nil {
		weeks, rest := RefWeekStreamDecode(b)
		for _, w := range weeks {
			stats = append(stats, x.Week(w))
		}
		tails[2] = rest
	}
	d["stats"] = stats
	d["tails"] = tails
	return d
}

func le32dec(b []byte) uint32 {
	return uint32(b[0]) | uint32(b[1])<<8 | uint32(b[2])<<16 | uint32(b[3])<<24
}
func le64dec(b []byte) uint64 { return uint64(le32dec(b)) | uint64(le32dec(b[4:]))<<32 }
