package hx

import (
	"bufio"
	"encoding/json"
	"os"
	"sync"
)

// Trace writes one JSON object per line. Events are serialised by the
// tracer's own mutex; for events emitted inside a critical section of the
// implementation this order is the order of the protecting lock.
type Trace struct {
	mu     sync.Mutex
	f      *os.File
	w      *bufio.Writer
	Seq    int
	Events int
	Counts map[string]int
	Sample []J
	scn    string
	// Sync makes every event reach the file before Emit returns (a write system call per
	// event), for processes that are going to be killed
	Sync     bool
	LastTick int
}

var (
	activeMu sync.Mutex
	active   []*Trace
)

func NewTrace(path string) (*Trace, error) {
	f, err := os.Create(path)
	if err != nil {
		return nil, err
	}
	t := &Trace{f: f, w: bufio.NewWriterSize(f, 1<<20), Counts: map[string]int{}}
	activeMu.Lock()
	active = append(active, t)
	activeMu.Unlock()
	return t, nil
}

// FlushAll writes out what every open trace has buffered (used when a driver
// has to give up: the partial trace is still evidence).
func FlushAll() {
	activeMu.Lock()
	defer activeMu.Unlock()
	for _, t := range active {
		if t.mu.TryLock() {
			t.w.Flush()
			t.mu.Unlock()
		}
	}
}

// Lock / Unlock let a driver make an environment step (e.g. set the clock)
// atomically with the event that records it.
func (t *Trace) Lock()   { t.mu.Lock() }
func (t *Trace) Unlock() { t.mu.Unlock() }

// EmitLocked writes an event; the caller holds the tracer's mutex.
func (t *Trace) EmitLocked(ev J) {
	t.Seq++
	ev["seq"] = t.Seq
	if _, ok := ev["scn"]; !ok {
		ev["scn"] = t.scn
	}
	b, err := json.Marshal(ev)
	if err != nil {
		panic(err)
	}
	t.w.Write(b)
	t.w.WriteByte('\n')
	if t.Sync {
		t.w.Flush()
	}
	t.Events++
	if a, ok := ev["a"].(string); ok {
		t.Counts[a]++
		if t.Counts[a] <= 2 && len(t.Sample) < 12 {
			t.Sample = append(t.Sample, ev)
		}
	}
}

func (t *Trace) Emit(ev J) {
	t.mu.Lock()
	defer t.mu.Unlock()
	t.EmitLocked(ev)
}

// Scenario starts a new scenario: a Reset event returns the specification to
// its initial state, so that many scenarios share one validation run.
func (t *Trace) Scenario(name string) {
	t.mu.Lock()
	defer t.mu.Unlock()
	t.scn = name
	t.EmitLocked(J{"a": "Reset"})
}

func (t *Trace) Close() error {
	t.mu.Lock()
	defer t.mu.Unlock()
	if err := t.w.Flush(); err != nil {
		return err
	}
	return t.f.Close()
}

// Raw appends an already encoded event (from a child process's trace).
func (t *Trace) Raw(line string) {
	t.mu.Lock()
	defer t.mu.Unlock()
	t.w.WriteString(line)
	t.w.WriteByte('\n')
	t.Events++
	var ev struct {
		A string `json:"a"`
		T int    `json:"t"`
	}
	if json.Unmarshal([]byte(line), &ev) == nil {
		t.Counts[ev.A]++
		if ev.A == "Tick" {
			t.LastTick = ev.T
		}
	}
}
