// Command lockcfg extracts, from the tree under test, the control-flow graph
// of every function of the given packages with the operations that matter for
// the lock discipline (Lock / Unlock / deferred Unlock of a mutex field, calls
// to functions of these packages, reads and writes of struct fields of the
// mutex-owning types, return and panic exits) and writes them as TLA+ data
// (LockData.tla). LockCFG.tla lets TLC walk every path of that graph.
package main

import (
	"encoding/json"
	"flag"
	"fmt"
	"go/ast"
	"go/token"
	"go/types"
	"os"
	"path/filepath"
	"sort"
	"strings"

	"golang.org/x/tools/go/cfg"
	"golang.org/x/tools/go/packages"
)

type op struct {
	Kind string // lock unlock defer call acc
	Arg  string // mutex / callee / field
	Pos  string
	W    bool // acc: write
}

type block struct {
	Ops  []op
	Succ []int
	Exit string // "" | return | panic
}

type fn struct {
	Name   string
	Blocks []block
	Root   bool
	Ctor   bool
	Lit    bool
}

var (
	fset  *token.FileSet
	info  *types.Info
	funcs = map[string]*fn{}
	// struct types that own a mutex: type name -> mutex field id
	owners = map[string]string{}
)

func typeName(t types.Type) string {
	for {
		switch x := t.(type) {
		case *types.Pointer:
			t = x.Elem()
			continue
		case *types.Named:
			return x.Obj().Pkg().Name() + "." + x.Obj().Name()
		}
		return ""
	}
}

// mutexID resolves X in X.Lock() to "Type.field" when X is a field of type sync.Mutex.
func mutexID(x ast.Expr) string {
	sel, ok := x.(*ast.SelectorExpr)
	if !ok {
		return ""
	}
	s, ok := info.Selections[sel]
	if !ok || s.Kind() != types.FieldVal {
		return ""
	}
	if n := typeName(s.Obj().Type()); n != "sync.Mutex" && n != "sync.RWMutex" {
		return ""
	}
	return typeName(s.Recv()) + "." + s.Obj().Name()
}

// netIO: calls that perform an outbound network request and block until the peer answers
var netIO = map[string]bool{"http.Post": true, "http.Get": true, "http.PostForm": true, "http.Head": true,
	"http.Client.Do": true, "http.Client.Get": true, "http.Client.Post": true, "http.Client.PostForm": true, "http.Client.Head": true,
	"net.Dial": true, "net.DialTimeout": true, "net.Dialer.Dial": true, "net.Dialer.DialContext": true}

func calleeName(call *ast.CallExpr) string {
	var id *ast.Ident
	switch f := call.Fun.(type) {
	case *ast.Ident:
		id = f
	case *ast.SelectorExpr:
		id = f.Sel
	default:
		return ""
	}
	obj, ok := info.Uses[id].(*types.Func)
	if !ok || obj.Pkg() == nil {
		return ""
	}
	name := obj.Pkg().Name() + "." + obj.Name()
	if sig, ok := obj.Type().(*types.Signature); ok && sig.Recv() != nil {
		name = typeName(sig.Recv().Type()) + "." + obj.Name()
	}
	return name
}

func pos(n ast.Node) string {
	p := fset.Position(n.Pos())
	return fmt.Sprintf("%s:%d", filepath.Base(p.Filename), p.Line)
}

// opsOf lists the operations of one CFG node in evaluation order (approximately: source order).
func opsOf(n ast.Node, cur *fn, litNames map[*ast.FuncLit]string) []op {
	var out []op
	writes := map[*ast.SelectorExpr]bool{}
	if as, ok := n.(*ast.AssignStmt); ok {
		for _, l := range as.Lhs {
			markWrites(l, writes)
		}
	}
	if inc, ok := n.(*ast.IncDecStmt); ok {
		markWrites(inc.X, writes)
	}
	deferred := false
	if d, ok := n.(*ast.DeferStmt); ok {
		deferred = true
		n = d.Call
	}
	if g, ok := n.(*ast.GoStmt); ok {
		// the goroutine body is its own root; arguments are evaluated here
		for _, a := range g.Call.Args {
			out = append(out, opsOf(a, cur, litNames)...)
		}
		return out
	}
	ast.Inspect(n, func(x ast.Node) bool {
		switch e := x.(type) {
		case *ast.FuncLit:
			return false // analysed as its own function
		case *ast.CallExpr:
			if sel, ok := e.Fun.(*ast.SelectorExpr); ok {
				if m := mutexID(sel.X); m != "" {
					switch sel.Sel.Name {
					case "Lock", "RLock":
						if !deferred {
							out = append(out, op{Kind: "lock", Arg: m, Pos: pos(e)})
						}
					case "Unlock", "RUnlock":
						k := "unlock"
						if deferred {
							k = "defer"
						}
						out = append(out, op{Kind: k, Arg: m, Pos: pos(e)})
					}
					return false
				}
			}
			if id, ok := e.Fun.(*ast.Ident); ok && id.Name == "panic" {
				if _, isBuiltin := info.Uses[id].(*types.Builtin); isBuiltin {
					for _, a := range e.Args {
						ast.Inspect(a, func(ast.Node) bool { return true })
					}
				}
			}
			if c := calleeName(e); netIO[c] && !deferred {
				// an outbound request: it may block for as long as the peer likes
				for _, a := range e.Args {
					out = append(out, opsOf(a, cur, litNames)...)
				}
				out = append(out, op{Kind: "netio", Arg: c, Pos: pos(e)})
				return false
			}
			if c := calleeName(e); c != "" && !deferred {
				// arguments first
				for _, a := range e.Args {
					out = append(out, opsOf(a, cur, litNames)...)
				}
				if sel, ok := e.Fun.(*ast.SelectorExpr); ok {
					out = append(out, opsOf(sel.X, cur, litNames)...)
				}
				out = append(out, op{Kind: "call", Arg: c, Pos: pos(e)})
				return false
			}
		case *ast.SelectorExpr:
			if s, ok := info.Selections[e]; ok && s.Kind() == types.FieldVal {
				owner := typeName(s.Recv())
				if _, owns := owners[owner]; owns {
					f := s.Obj().Name()
					if tn := typeName(s.Obj().Type()); tn != "sync.Mutex" && !strings.HasPrefix(f, "static") {
						out = append(out, op{Kind: "acc", Arg: owner + "." + f, Pos: pos(e), W: writes[e]})
					}
				}
			}
		}
		return true
	})
	return out
}

func markWrites(l ast.Expr, w map[*ast.SelectorExpr]bool) {
	switch e := l.(type) {
	case *ast.SelectorExpr:
		w[e] = true
	case *ast.IndexExpr: // m[k] = v writes the map / array field
		markWrites(e.X, w)
	case *ast.StarExpr:
		markWrites(e.X, w)
	case *ast.ParenExpr:
		markWrites(e.X, w)
	}
}

func mayReturn(call *ast.CallExpr) bool {
	if id, ok := call.Fun.(*ast.Ident); ok && id.Name == "panic" {
		return false
	}
	if sel, ok := call.Fun.(*ast.SelectorExpr); ok {
		if x, ok := sel.X.(*ast.Ident); ok && x.Name == "os" && sel.Sel.Name == "Exit" {
			return false
		}
		if sel.Sel.Name == "Fatal" || sel.Sel.Name == "Fatalf" {
			return false
		}
	}
	return true
}

func build(name string, body *ast.BlockStmt, lit bool, litNames map[*ast.FuncLit]string) {
	g := cfg.New(body, mayReturn)
	f := &fn{Name: name, Lit: lit}
	idx := map[*cfg.Block]int{}
	var live []*cfg.Block
	for _, b := range g.Blocks {
		if b.Live {
			idx[b] = len(live) + 1
			live = append(live, b)
		}
	}
	for _, b := range live {
		var bl block
		for _, n := range b.Nodes {
			bl.Ops = append(bl.Ops, opsOf(n, f, litNames)...)
			if es, ok := n.(*ast.ExprStmt); ok {
				if c, ok := es.X.(*ast.CallExpr); ok && !mayReturn(c) {
					bl.Exit = "panic"
				}
			}
		}
		for _, s := range b.Succs {
			if i, ok := idx[s]; ok {
				bl.Succ = append(bl.Succ, i)
			}
		}
		if len(bl.Succ) == 0 && bl.Exit == "" {
			bl.Exit = "return"
		}
		if _, isRet := lastIsReturn(b); isRet {
			bl.Exit = "return"
			bl.Succ = nil
		}
		f.Blocks = append(f.Blocks, bl)
	}
	if len(f.Blocks) == 0 {
		f.Blocks = []block{{Exit: "return"}}
	}
	funcs[name] = f
}

func lastIsReturn(b *cfg.Block) (ast.Node, bool) {
	if len(b.Nodes) == 0 {
		return nil, false
	}
	r, ok := b.Nodes[len(b.Nodes)-1].(*ast.ReturnStmt)
	return r, ok
}

func q(s string) string { return "\"" + s + "\"" }

func main() {
	repo := flag.String("repo", "/repo", "")
	out := flag.String("out", "LockData.tla", "")
	jout := flag.String("json", "", "")
	flag.Parse()
	var patterns []string
	for _, p := range flag.Args() {
		patterns = append(patterns, "./"+p)
	}
	cfgp := &packages.Config{Mode: packages.NeedName | packages.NeedFiles | packages.NeedSyntax | packages.NeedTypes | packages.NeedTypesInfo | packages.NeedImports | packages.NeedDeps,
		Dir: *repo, BuildFlags: []string{"-tags=test"}, Env: append(os.Environ(), "GOFLAGS=-mod=mod", "GOPROXY=off", "GOSUMDB=off")}
	pkgs, err := packages.Load(cfgp, patterns...)
	if err != nil {
		fmt.Fprintln(os.Stderr, err)
		os.Exit(1)
	}
	if packages.PrintErrors(pkgs) > 0 {
		os.Exit(1)
	}
	// pass 1: the mutex-owning struct types
	for _, p := range pkgs {
		scope := p.Types.Scope()
		for _, n := range scope.Names() {
			tn, ok := scope.Lookup(n).(*types.TypeName)
			if !ok {
				continue
			}
			st, ok := tn.Type().Underlying().(*types.Struct)
			if !ok {
				continue
			}
			for i := 0; i < st.NumFields(); i++ {
				if typeName(st.Field(i).Type()) == "sync.Mutex" {
					owners[p.Types.Name()+"."+n] = p.Types.Name() + "." + n + "." + st.Field(i).Name()
				}
			}
		}
	}
	delete(owners, "glow.SafeMu")
	nlit := 0
	for _, p := range pkgs {
		fset = p.Fset
		info = p.TypesInfo
		for _, file := range p.Syntax {
			base := filepath.Base(fset.Position(file.Pos()).Filename)
			if strings.HasSuffix(base, "_test.go") || strings.HasPrefix(base, "verif_") || base == "safeMu.go" {
				continue
			}
			for _, d := range file.Decls {
				fd, ok := d.(*ast.FuncDecl)
				if !ok || fd.Body == nil {
					continue
				}
				name := p.Types.Name() + "." + fd.Name.Name
				if fd.Recv != nil && len(fd.Recv.List) > 0 {
					name = typeName(info.TypeOf(fd.Recv.List[0].Type)) + "." + fd.Name.Name
				}
				// function literals inside become functions of their own (roots: goroutines, callbacks)
				ast.Inspect(fd.Body, func(x ast.Node) bool {
					if fl, ok := x.(*ast.FuncLit); ok {
						nlit++
						build(fmt.Sprintf("%s$lit%d@%s", name, nlit, pos(fl)), fl.Body, true, nil)
					}
					return true
				})
				build(name, fd.Body, false, nil)
			}
		}
	}
	// call graph: roots are functions without a static caller and all literals
	callers := map[string]map[string]bool{}
	for _, f := range funcs {
		for _, b := range f.Blocks {
			for _, o := range b.Ops {
				if o.Kind == "call" {
					if _, ok := funcs[o.Arg]; ok {
						if callers[o.Arg] == nil {
							callers[o.Arg] = map[string]bool{}
						}
						callers[o.Arg][f.Name] = true
					}
				}
			}
		}
	}
	// construction context: New* functions and everything only they (transitively) call
	ctor := map[string]bool{}
	for n := range funcs {
		short := n[strings.LastIndex(n, ".")+1:]
		if strings.HasPrefix(short, "New") && !strings.Contains(n, "$lit") {
			ctor[n] = true
		}
	}
	for changed := true; changed; {
		changed = false
		for n := range funcs {
			if ctor[n] || len(callers[n]) == 0 || strings.Contains(n, "$lit") {
				continue
			}
			all := true
			for c := range callers[n] {
				if !ctor[c] {
					all = false
				}
			}
			if all {
				ctor[n] = true
				changed = true
			}
		}
	}
	// protected fields: fields of mutex-owning types written outside construction context
	protected := map[string]string{}
	for _, f := range funcs {
		if ctor[f.Name] {
			continue
		}
		for _, b := range f.Blocks {
			for _, o := range b.Ops {
				if o.Kind == "acc" && o.W {
					owner := o.Arg[:strings.LastIndex(o.Arg, ".")]
					protected[o.Arg] = owners[owner]
				}
			}
		}
	}
	names := []string{}
	for n, f := range funcs {
		f.Root = len(callers[n]) == 0 || f.Lit
		f.Ctor = ctor[n]
		names = append(names, n)
	}
	sort.Strings(names)
	var sb strings.Builder
	sb.WriteString("------------------------------ MODULE LockData ------------------------------\n")
	sb.WriteString("(* generated by harness/cmd/lockcfg from the tree under test: do not edit *)\n")
	nb, nl, na := 0, 0, 0
	sb.WriteString("Funcs == {" + strings.Join(mapq(names), ", ") + "}\n")
	var roots, ctors []string
	for _, n := range names {
		if funcs[n].Root {
			roots = append(roots, n)
		}
		if funcs[n].Ctor {
			ctors = append(ctors, n)
		}
	}
	sb.WriteString("Roots == {" + strings.Join(mapq(roots), ", ") + "}\n")
	sb.WriteString("Ctors == {" + strings.Join(mapq(ctors), ", ") + "}\n")
	var news []string
	for _, n := range names {
		short := n[strings.LastIndex(n, ".")+1:]
		if strings.HasPrefix(short, "New") && !strings.Contains(n, "$lit") {
			news = append(news, n)
		}
	}
	sb.WriteString("News == {" + strings.Join(mapq(news), ", ") + "}\n")
	var prot []string
	for f, m := range protected {
		prot = append(prot, fmt.Sprintf("<<%s, %s>>", q(f), q(m)))
	}
	sort.Strings(prot)
	sb.WriteString("ProtectedPairs == {" + strings.Join(prot, ", ") + "}\n")
	sb.WriteString("Body(f) ==\n  CASE ")
	for i, n := range names {
		if i > 0 {
			sb.WriteString("    [] ")
		}
		sb.WriteString("f = " + q(n) + " -> <<")
		var bs []string
		for _, b := range funcs[n].Blocks {
			nb++
			var os_ []string
			for _, o := range b.Ops {
				if o.Kind == "acc" {
					if _, ok := protected[o.Arg]; !ok {
						continue
					}
					na++
				}
				if o.Kind == "call" {
					if _, ok := funcs[o.Arg]; !ok {
						continue
					}
				}
				if o.Kind == "lock" || o.Kind == "unlock" || o.Kind == "defer" {
					nl++
				}
				os_ = append(os_, fmt.Sprintf("<<%s, %s, %s>>", q(o.Kind), q(o.Arg), q(o.Pos)))
			}
			var ss []string
			for _, s := range b.Succ {
				ss = append(ss, fmt.Sprint(s))
			}
			ex := b.Exit
			if ex == "" {
				ex = "none"
			}
			bs = append(bs, fmt.Sprintf("[ops |-> <<%s>>, succ |-> {%s}, exit |-> %s]", strings.Join(os_, ", "), strings.Join(ss, ", "), q(ex)))
		}
		sb.WriteString(strings.Join(bs, ",\n        ") + ">>\n")
	}
	sb.WriteString("=============================================================================\n")
	if err := os.WriteFile(*out, []byte(sb.String()), 0644); err != nil {
		fmt.Fprintln(os.Stderr, err)
		os.Exit(1)
	}
	if *jout != "" {
		b, _ := json.Marshal(map[string]interface{}{"functions": len(names), "blocks": nb, "lock_ops": nl, "field_accesses": na,
			"roots": len(roots), "protected": protected, "reported": []string{}})
		os.WriteFile(*jout, b, 0644)
	}
}

func mapq(l []string) []string {
	out := make([]string, len(l))
	for i, s := range l {
		out[i] = q(s)
	}
	return out
}
