// Command constx reads, from the source of the server package type-checked
// under the PRODUCTION build configuration (no 'test' tag), the numbers the
// window-safety inequality of C20 talks about: the rotation trigger compared
// against in launchMigrateReports, the acceptance half-width compared against
// in the report handler, and the length of the per-device report window.
package main

import (
	"encoding/json"
	"flag"
	"fmt"
	"go/ast"
	"go/constant"
	"go/token"
	"go/types"
	"os"
	"strings"

	"golang.org/x/tools/go/packages"
)

type cmp struct {
	Func   string  `json:"func"`
	Op     string  `json:"op"`
	Consts []int64 `json:"consts"` // maximal integer-constant subtrees, left operand first
	Side   []int   `json:"side"`   // 0: found in the left operand, 1: in the right operand
	Text   string  `json:"text"`
}

func main() {
	repo := flag.String("repo", "/repo", "repository root")
	tags := flag.String("tags", "", "build tags")
	flag.Parse()
	cfgp := &packages.Config{Mode: packages.NeedName | packages.NeedFiles | packages.NeedSyntax | packages.NeedTypes | packages.NeedTypesInfo | packages.NeedImports | packages.NeedDeps,
		Dir: *repo, BuildFlags: []string{"-tags=" + *tags}, Env: append(os.Environ(), "GOFLAGS=-mod=mod", "GOPROXY=off", "GOSUMDB=off")}
	pkgs, err := packages.Load(cfgp, "./server")
	if err != nil || len(pkgs) != 1 || packages.PrintErrors(pkgs) > 0 {
		fmt.Fprintln(os.Stderr, "load failed", err)
		os.Exit(1)
	}
	p := pkgs[0]
	out := map[string]interface{}{}
	var cmps []cmp
	want := map[string]bool{"launchMigrateReports": true, "managedHandleEquipmentReport": true, "parseReport": true, "integrateReport": true, "NewGCAServer": true, "loadEquipmentReports": true}
	src := func(n ast.Node) string {
		var sb strings.Builder
		pos, end := p.Fset.Position(n.Pos()), p.Fset.Position(n.End())
		b, err := os.ReadFile(pos.Filename)
		if err == nil && end.Offset <= len(b) {
			sb.Write(b[pos.Offset:end.Offset])
		}
		return sb.String()
	}
	var collect func(e ast.Expr, side int, c *cmp)
	collect = func(e ast.Expr, side int, c *cmp) {
		if tv, ok := p.TypesInfo.Types[e]; ok && tv.Value != nil && tv.Value.Kind() == constant.Int {
			if v, exact := constant.Int64Val(tv.Value); exact {
				c.Consts = append(c.Consts, v)
				c.Side = append(c.Side, side)
			}
			return
		}
		switch x := e.(type) {
		case *ast.BinaryExpr:
			collect(x.X, side, c)
			collect(x.Y, side, c)
		case *ast.ParenExpr:
			collect(x.X, side, c)
		case *ast.UnaryExpr:
			collect(x.X, side, c)
		case *ast.CallExpr: // conversions such as int64(x - 432)
			if len(x.Args) == 1 {
				if tv, ok := p.TypesInfo.Types[x.Fun]; ok && tv.IsType() {
					collect(x.Args[0], side, c)
				}
			}
		}
	}
	for _, f := range p.Syntax {
		for _, d := range f.Decls {
			fd, ok := d.(*ast.FuncDecl)
			if !ok || fd.Body == nil || !want[fd.Name.Name] {
				continue
			}
			ast.Inspect(fd.Body, func(n ast.Node) bool {
				be, ok := n.(*ast.BinaryExpr)
				if !ok {
					return true
				}
				switch be.Op {
				case token.LSS, token.LEQ, token.GTR, token.GEQ:
					c := cmp{Func: fd.Name.Name, Op: be.Op.String(), Text: src(be)}
					collect(be.X, 0, &c)
					collect(be.Y, 1, &c)
					if len(c.Consts) > 0 {
						cmps = append(cmps, c)
					}
				}
				return true
			})
		}
	}
	out["comparisons"] = cmps
	// the window: length of the array a device's reports live in
	if tn, ok := p.Types.Scope().Lookup("GCAServer").(*types.TypeName); ok {
		if st, ok := tn.Type().Underlying().(*types.Struct); ok {
			for i := 0; i < st.NumFields(); i++ {
				fl := st.Field(i)
				if fl.Name() != "equipmentReports" && fl.Name() != "equipmentImpactRate" {
					continue
				}
				if m, ok := fl.Type().Underlying().(*types.Map); ok {
					el := m.Elem()
					if pt, ok := el.Underlying().(*types.Pointer); ok {
						el = pt.Elem()
					}
					if at, ok := el.Underlying().(*types.Array); ok {
						out[fl.Name()+"_len"] = at.Len()
					}
				}
			}
		}
	}
	// named duration constants, in milliseconds
	for _, n := range []string{"ReportMigrationFrequency"} {
		if c, ok := p.Types.Scope().Lookup(n).(*types.Const); ok {
			if v, exact := constant.Int64Val(c.Val()); exact {
				out[n+"_ms"] = v / 1000000
			}
		}
	}
	json.NewEncoder(os.Stdout).Encode(out)
}
