package main

import (
	"fmt"
	"os"
	"path/filepath"
	"time"

	"github.com/glowlabs-org/gca-backend/client"
	"github.com/glowlabs-org/gca-backend/glow"

	"verifharness/hx"
)

func runRoundScenarios(c *ctx, t *hx.Trace, abs hx.Abs, newEnv func(string, map[string]bool) (*rEnv, error)) error {
	rng := c.rng
	closeEnv := func(r *rEnv) {
		r.cli.Close()
		for _, f := range r.fakes {
			f.Close()
		}
		if r.cli.Sink != nil {
			r.cli.Sink.Close()
		}
	}
	okReply := func(r *rEnv, owner string) []byte { return r.build(owner, replySpec{}) }

	// ---- C11: outcome classes per attempt
	modes := []string{"refuse", "reset", "short", "hang", "zero", "badsig", "stale", "foreign-device", "rogue-short", "rogue-garbage-list",
		"rogue-unsigned-entry", "rogue-bad-migration", "garbage", "empty", "ok"}
	setMode := func(r *rEnv, name, mode string) {
		switch mode {
		case "refuse", "reset", "hang", "zero":
			r.serve(name, mode, nil)
		case "short":
			r.serve(name, "short", okReply(r, name))
			r.cur[name] = hx.J{"mode": "short", "reply": r.abs.DescribeReply(nil)}
		case "badsig":
			r.serve(name, "reply", r.build(name, replySpec{signer: "x1"}))
		case "stale":
			r.serve(name, "reply", r.build(name, replySpec{dt: -25 * 3600}))
		case "foreign-device":
			r.serve(name, "reply", r.build(name, replySpec{device: "otherdev"}))
		case "rogue-short":
			r.serve(name, "reply", r.build(name, replySpec{truncate: []int{72, 100, 576, 711}[rng.Intn(4)]}))
		case "rogue-garbage-list":
			b := okReply(r, name)
			body := append(append([]byte(nil), b[:len(b)-136]...), make([]byte, 33)...)
			body = append(body, b[len(b)-136:len(b)-64]...)
			sig := r.abs.SR.Sign(name, body)
			r.serve(name, "reply", append(body, sig[:]...))
		case "rogue-unsigned-entry":
			r.serve(name, "reply", r.build(name, replySpec{servers: []hx.RawServer{r.entry("fx", false, 1, "")}}))
		case "rogue-bad-migration":
			r.serve(name, "reply", r.build(name, replySpec{mig: true, newGCA: "gca2", newID: 5, outer: "x1"}))
		case "garbage":
			b := make([]byte, 1+rng.Intn(3000))
			rng.Read(b)
			r.serve(name, "reply", b)
		case "empty":
			r.serve(name, "reply", []byte{})
		case "ok":
			r.serve(name, "reply", okReply(r, name))
		}
	}
	nfault := 10
	if c.tier == "thorough" {
		nfault = 60
	}
	if !c.part("fault") {
		nfault = 0
	}
	for i := 0; i < nfault; i++ {
		n := 1 + rng.Intn(5)
		servers := map[string]bool{}
		for k := 1; k <= n; k++ {
			servers[fmt.Sprintf("f%d", k)] = rng.Intn(4) == 0
		}
		if i == 0 { // all banned
			for k := range servers {
				servers[k] = true
			}
		}
		r, err := newEnv(fmt.Sprintf("rounds/fault/%d", i), servers)
		if err != nil {
			return err
		}
		for round := 0; round < 2; round++ {
			for k := range servers {
				m := modes[rng.Intn(len(modes))]
				if i == 1 { // all failing
					m = modes[rng.Intn(len(modes)-1)]
				}
				setMode(r, k, m)
			}
			r.round()
		}
		closeEnv(r)
	}
	// after failed rounds the background loop starts new rounds on its own
	if c.part("fault") {
		r, err := newEnv("rounds/resync", map[string]bool{"f1": false, "f2": false})
		if err != nil {
			return err
		}
		r.cli.Close()
		os.WriteFile(filepath.Join(r.cli.Dir, "last-sync.txt"), []byte("1000"), 0644) // the last sync was long ago
		n := 0
		prev := r.cli.Extra
		r.cli.Extra = func(cl *client.Client, ev string, args []interface{}) bool {
			if ev == "SyncBegin" {
				n++
			}
			if ev == "SyncBegin" || ev == "SyncPick" || ev == "SyncApply" {
				return true // counted, not traced: these rounds run concurrently with the loop
			}
			return prev(cl, ev, args)
		}
		r.cli.Ungated = true
		if err := r.cli.Start(); err != nil {
			return err
		}
		time.Sleep(1500 * time.Millisecond)
		r.cli.Close()
		t.Emit(hx.J{"a": "Resyncs", "n": n})
		closeEnv(r)
	}

	// ---- overlapping rounds: round r1 is held after its first pick (a slow server); meanwhile round r2
	// learns bans from the GCA; r1 then goes on with its remaining attempts
	nover := 6
	if c.tier == "thorough" {
		nover = 40
	}
	if !c.part("fault") {
		nover = 0
	}
	for i := 0; i < nover; i++ {
		n := 3 + rng.Intn(3)
		servers := map[string]bool{}
		var names []string
		for k := 1; k <= n; k++ {
			names = append(names, fmt.Sprintf("f%d", k))
			servers[names[k-1]] = false
		}
		r, err := newEnv(fmt.Sprintf("rounds/overlap/%d", i), servers)
		if err != nil {
			return err
		}
		for _, k := range names {
			setMode(r, k, "refuse")
		}
		r.mu.Lock()
		r.parkAt = "r1"
		r.mu.Unlock()
		resA := r.roundAs("r1")
		select {
		case <-r.parked:
		case <-time.After(10 * time.Second):
			return fmt.Errorf("round r1 did not reach the yield point after its pick")
		}
		r.mu.Lock()
		x := r.lastPick["r1"]
		r.mu.Unlock()
		// every server other than the one r1 is waiting for now answers with a GCA-signed list of bans
		banAll := i%3 == 2
		for _, y := range names {
			if y == x {
				continue
			}
			var list []hx.RawServer
			for _, z := range names {
				if banAll || (z != x && z != y) {
					list = append(list, r.entry(z, true, 1, "gca"))
				}
			}
			r.serve(y, "reply", r.build(y, replySpec{servers: list}))
		}
		t.Emit(hx.J{"a": "DriverNote", "note": "r1 waits for " + x + "; r2 runs"})
		<-r.roundAs("r2")
		t.Emit(hx.J{"a": "DriverNote", "note": "r1 continues"})
		r.unpark <- struct{}{}
		<-resA
		t.Emit(hx.J{"a": "LoopProbe", "ok": r.cli.Iterate()})
		closeEnv(r)
	}

	// ---- scheduling: the report loop, single-stepped, launches the rounds itself
	type schedScn struct {
		sync  string // last-sync.txt: "recent", "old", "missing" (created at start-up: recent), "corrupt"
		modes []string
		iters int
	}
	scheds := []schedScn{
		{"old", []string{"ok", "ok"}, 66},                                          // stale: sync at once, then after 60 iterations
		{"recent", []string{"refuse"}, 50},                                         // recent: first sync after 30 iterations, then retries
		{"corrupt", []string{"refuse", "refuse", "reset", "refuse", "badsig"}, 30}, // failing rounds of five attempts overlap
		{"missing", []string{"refuse", "ok", "badsig"}, 40},
	}
	if c.tier == "thorough" {
		for i := 0; i < 8; i++ {
			n := 1 + rng.Intn(5)
			var ms []string
			for k := 0; k < n; k++ {
				ms = append(ms, []string{"ok", "refuse", "reset", "badsig", "refuse", "stale"}[rng.Intn(6)])
			}
			scheds = append(scheds, schedScn{[]string{"recent", "old", "missing", "corrupt"}[rng.Intn(4)], ms, 20 + rng.Intn(50)})
		}
	}
	if !c.part("sched") {
		scheds = nil
	}
	for i, sc := range scheds {
		servers := map[string]bool{}
		for k := range sc.modes {
			servers[fmt.Sprintf("f%d", k+1)] = false
		}
		r, err := newEnv(fmt.Sprintf("rounds/sched/%d", i), servers)
		if err != nil {
			return err
		}
		// restart with the scheduling events traced and the sync file as wanted
		r.cli.Close()
		lsf := filepath.Join(r.cli.Dir, client.LastSyncFile)
		switch sc.sync {
		case "recent":
			os.WriteFile(lsf, []byte(fmt.Sprint(time.Now().Unix()-3600)), 0644)
		case "old":
			os.WriteFile(lsf, []byte(fmt.Sprint(time.Now().Unix()-7*3600)), 0644)
		case "missing":
			os.Remove(lsf)
		case "corrupt":
			os.WriteFile(lsf, []byte("12x"), 0644)
		}
		for k, m := range sc.modes {
			setMode(r, fmt.Sprintf("f%d", k+1), m)
		}
		r.sched, r.recent = true, sc.sync == "recent" || sc.sync == "missing"
		if err := r.cli.Start(); err != nil {
			return err
		}
		for it := 0; it < sc.iters && !r.lost; it++ {
			if !r.cli.Iterate() {
				return fmt.Errorf("report loop did not complete an iteration")
			}
		}
		// the loop is parked before its next iteration; wait for the rounds in flight
		deadline := time.Now().Add(4 * time.Second)
		for time.Now().Before(deadline) {
			r.mu.Lock()
			done := r.nreturn == r.nlaunch
			r.mu.Unlock()
			if done {
				break
			}
			time.Sleep(10 * time.Millisecond)
		}
		r.mu.Lock()
		done := r.nreturn == r.nlaunch && !r.lost
		r.mu.Unlock()
		if done {
			t.Emit(hx.J{"a": "SchedQuiesce"})
		} else {
			t.Emit(hx.J{"a": "DriverNote", "note": "rounds still in flight"})
		}
		t.Emit(hx.J{"a": "ClientClosing"})
		closeEnv(r)
	}

	// ---- retransmissions go to the server the round synced with, also when another round picked a
	// different primary server in between
	nres := 5
	if c.tier == "thorough" {
		nres = 20
	}
	if !c.part("fault") && c.only != "resend" {
		nres = 0
	}
	for i := 0; i < nres; i++ {
		names := []string{"f1", "f2", "f3"}
		r, err := newEnv(fmt.Sprintf("rounds/overlap-resend/%d", i), map[string]bool{"f1": false, "f2": false, "f3": false})
		if err != nil {
			return err
		}
		// the client holds readings; every server reports all of them as missing
		G := glow.VerifGenesis()
		var lines []string
		for k := 0; k < 4; k++ {
			lines = append(lines, fmt.Sprintf("%d,%d", G+int64(60+k)*300+5, 100+k))
		}
		r.cli.WriteEnergy(lines)
		if !r.cli.Iterate() {
			return fmt.Errorf("report loop did not complete an iteration")
		}
		r.latest = 63
		for _, k := range names {
			r.serve(k, "reply", r.build(k, replySpec{missing: true}))
		}
		r.mu.Lock()
		r.parkAt = "r1"
		r.mu.Unlock()
		resA := r.roundAs("r1")
		select {
		case <-r.parked:
		case <-time.After(10 * time.Second):
			return fmt.Errorf("round r1 did not reach the yield point after its pick")
		}
		t.Emit(hx.J{"a": "DriverNote", "note": "r1 waits after its pick; r2 runs"})
		<-r.roundAs("r2")
		t.Emit(hx.J{"a": "DriverNote", "note": "r1 continues"})
		r.unpark <- struct{}{}
		<-resA
		t.Emit(hx.J{"a": "LoopProbe", "ok": r.cli.Iterate()})
		closeEnv(r)
	}

	// ---- a migration is applied while another round is in flight: that round verified (or will verify) its reply
	// against the former GCA's key; what it received must not be adopted any more
	nmig := 4
	if c.tier == "thorough" {
		nmig = 16
	}
	if !c.part("lists") {
		nmig = 0
	}
	for i := 0; i < nmig; i++ {
		names := []string{"f1", "f2", "f3"}
		r, err := newEnv(fmt.Sprintf("rounds/overlap-mig/%d", i), map[string]bool{"f1": false, "f2": false, "f3": false})
		if err != nil {
			return err
		}
		abs.KR.Gen("gca3")
		old := func(o string) replySpec { // what the former GCA signed: a new server, or an order to move to gca3
			if i%2 == 0 {
				return replySpec{servers: []hx.RawServer{r.entry("f9", false, 1, "gca")}}
			}
			return replySpec{mig: true, newGCA: "gca3", newID: 333, outer: "gca", servers: []hx.RawServer{r.entry("n3", false, 1, "gca3")}}
		}
		for _, k := range names {
			r.serve(k, "reply", r.build(k, old(k)))
		}
		r.mu.Lock()
		r.parkAt = "r1"
		r.mu.Unlock()
		resA := r.roundAs("r1")
		select {
		case <-r.parked:
		case <-time.After(10 * time.Second):
			return fmt.Errorf("round r1 did not reach the yield point after its pick")
		}
		r.mu.Lock()
		x := r.lastPick["r1"]
		r.mu.Unlock()
		for _, y := range names {
			if y != x {
				r.serve(y, "reply", r.build(y, replySpec{mig: true, newGCA: "gca2", newID: 900, outer: "gca", servers: []hx.RawServer{r.entry("n1", false, 1, "gca2")}}))
			}
		}
		t.Emit(hx.J{"a": "DriverNote", "note": "r1 waits for " + x + "; r2 runs until the migration to gca2 is applied"})
		migrated := false
		for k := 0; k < 8 && !migrated; k++ {
			<-r.roundAs("r2")
			migrated = r.cli.C.VerifState().GCAPubKey == abs.KR.Pub("gca2")
		}
		t.Emit(hx.J{"a": "DriverNote", "note": fmt.Sprintf("migrated=%v; r1 continues", migrated)})
		r.unpark <- struct{}{}
		<-resA
		t.Emit(hx.J{"a": "LoopProbe", "ok": r.cli.Iterate()})
		if i%2 == 0 {
			r.cli.Close()
			r.cli.Start()
		}
		closeEnv(r)
	}

	// ---- C17: lists and migration orders
	if c.part("lists") {
		r, err := newEnv("rounds/lists", map[string]bool{"f1": false, "f2": false, "f3": true})
		if err != nil {
			return err
		}
		all := func(sp func(owner string) replySpec) {
			for _, k := range []string{"f1", "f2", "f3", "f4", "f5", "n1", "n2"} {
				if _, ok := r.fakes[k]; ok {
					r.serve(k, "reply", r.build(k, sp(k)))
				}
			}
		}
		step := func(name string, sp func(owner string) replySpec) {
			t.Emit(hx.J{"a": "DriverNote", "note": name})
			all(sp)
			r.round()
			if rng.Intn(3) == 0 {
				r.cli.Close()
				r.cli.Start()
			}
		}
		step("new server f4", func(o string) replySpec { return replySpec{servers: []hx.RawServer{r.entry("f4", false, 1, "gca")}} })
		step("duplicate with changed ports", func(o string) replySpec { return replySpec{servers: []hx.RawServer{r.entry("f1", false, 777, "gca")}} })
		step("new server signed by an outsider", func(o string) replySpec { return replySpec{servers: []hx.RawServer{r.entry("f5", false, 1, "x1")}} })
		step("ban f2", func(o string) replySpec { return replySpec{servers: []hx.RawServer{r.entry("f2", true, 9, "gca")}} })
		step("un-ban attempt for f2 and f3", func(o string) replySpec {
			return replySpec{servers: []hx.RawServer{r.entry("f2", false, 1, "gca"), r.entry("f3", false, 1, "gca")}}
		})
		step("ban then stale entry in one list", func(o string) replySpec {
			return replySpec{servers: []hx.RawServer{r.entry("f4", true, 1, "gca"), r.entry("f4", false, 1, "gca")}}
		})
		step("new banned server", func(o string) replySpec { return replySpec{servers: []hx.RawServer{r.entry("f5", true, 1, "gca")}} })
		r.cli.Close()
		r.cli.Start()
		step("migration with invalid outer signature", func(o string) replySpec {
			return replySpec{mig: true, newGCA: "gca2", newID: 900, outer: "gca2", servers: []hx.RawServer{r.entry("n1", false, 1, "gca2")}}
		})
		step("migration with a blank outer signature", func(o string) replySpec {
			return replySpec{mig: true, newGCA: "gca2", newID: 900, outer: "", servers: []hx.RawServer{r.entry("n1", false, 1, "gca2")}}
		})
		step("migration with invalid inner signature", func(o string) replySpec {
			return replySpec{mig: true, newGCA: "gca2", newID: 900, outer: "gca", servers: []hx.RawServer{r.entry("n1", false, 1, "gca")}}
		})
		step("migration signed for another device", func(o string) replySpec {
			return replySpec{mig: true, newGCA: "gca2", newID: 900, outer: "gca", migFor: "otherdev", servers: []hx.RawServer{r.entry("n1", false, 1, "gca2")}}
		})
		step("migration to the same GCA", func(o string) replySpec {
			return replySpec{mig: true, newGCA: "gca", newID: 901, outer: "gca", servers: []hx.RawServer{r.entry("f1", false, 1, "gca")}}
		})
		step("valid migration", func(o string) replySpec {
			return replySpec{mig: true, newGCA: "gca2", newID: 900, outer: "gca",
				servers: []hx.RawServer{r.entry("n1", false, 1, "gca2"), r.entry("n2", true, 1, "gca2"), r.entry("n1", true, 1, "gca2")}}
		})
		r.cli.Close()
		r.cli.Start()
		r.gca = "gca2"
		step("after migration: list signed by the old GCA", func(o string) replySpec { return replySpec{servers: []hx.RawServer{r.entry("f1", false, 1, "gca")}} })
		step("after migration: list signed by the new GCA", func(o string) replySpec { return replySpec{servers: []hx.RawServer{r.entry("f1", false, 1, "gca2")}} })
		step("after migration: migration back signed by old GCA", func(o string) replySpec {
			return replySpec{mig: true, newGCA: "gca", newID: 1, outer: "gca", servers: nil}
		})
		closeEnv(r)
		// random list histories
		nh := 5
		if c.tier == "thorough" {
			nh = 40
		}
		for h := 0; h < nh; h++ {
			r, err := newEnv(fmt.Sprintf("rounds/randlists/%d", h), map[string]bool{"f1": false, "f2": rng.Intn(3) == 0, "f3": false})
			if err != nil {
				return err
			}
			names := []string{"f1", "f2", "f3", "f4", "f5"}
			for s := 0; s < 6; s++ {
				var list []hx.RawServer
				for e := 0; e < rng.Intn(4); e++ {
					signer := []string{"gca", "gca", "gca", "x1", "gca2", ""}[rng.Intn(6)]
					list = append(list, r.entry(names[rng.Intn(len(names))], rng.Intn(3) == 0, uint16(rng.Intn(3)), signer))
				}
				sp := replySpec{servers: list}
				if rng.Intn(3) == 0 {
					// a migration order: any signer for the order and for each new server (the specification decides)
					gs := []string{"gca", "gca2", "gca3", "x1", ""}
					abs.KR.Gen("gca3")
					var news []hx.RawServer
					for e := 0; e < 1+rng.Intn(2); e++ {
						news = append(news, r.entry([]string{"n1", "n2", "n3", "f1"}[rng.Intn(4)], rng.Intn(4) == 0, 1, gs[rng.Intn(3)]))
					}
					sp = replySpec{mig: true, newGCA: gs[rng.Intn(3)], newID: uint32(300 + rng.Intn(3)), outer: gs[rng.Intn(5)], servers: news}
					if rng.Intn(6) == 0 {
						sp.migFor = "otherdev"
					}
				}
				r.mu.Lock()
				var ends []string
				for k := range r.fakes {
					ends = append(ends, k)
				}
				r.mu.Unlock()
				for _, k := range ends {
					r.serve(k, "reply", r.build(k, sp))
				}
				r.round()
				if rng.Intn(3) == 0 {
					r.cli.Close()
					r.cli.Start()
				}
			}
			closeEnv(r)
		}
	}
	c.summary["events"] = t.Events
	c.summary["counts"] = t.Counts
	c.summary["samples"] = t.Sample
	_ = time.Now
	return t.Close()
}
