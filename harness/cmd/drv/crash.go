package main

import (
	"bufio"
	"fmt"
	"os"
	"os/exec"
	"path/filepath"
	"strings"
	"syscall"
	"time"

	"verifharness/hx"
)

// Family "crash" (C05). A child process runs a seeded workload on a server
// directory, with every trace event written through to its file; it dies at
// an armed crash point (exit inside the operation) or is SIGKILLed at a
// random instant. The parent then records the files as found, starts the
// real server on them and continues the trace: the start must succeed, the
// files must be those of the completed operations plus at most the write in
// flight, and an unregistered server must still accept its registration.
//
// "crashchild" is the child's entry point.

func init() {
	families["crash"] = runCrash
	families["crashchild"] = runCrashChild
}

// the workload: operations every child performs in order (as far as it gets)
func crashWorkload(s *scn, c *ctx, first bool) error {
	if first {
		s.T.Scenario(os.Getenv("VERIF_SCN"))
		s.Tick(900)
	} else {
		s.Tick(900)
	}
	if err := s.Start(); err != nil {
		return err
	}
	s.Register("gca", "temp", "gca")
	for i := uint32(1); i <= 3; i++ {
		s.Authorize(s.BuildAuth(hx.AuthSpec{ID: i, Key: fmt.Sprintf("d%d", i), Cap: 100, Signer: "gca"}))
	}
	rep := func(id, ts uint32, v uint64) { s.Deliver(s.ReportBytes(id, ts, v, fmt.Sprintf("d%d", id), 0)) }
	rep(1, 880, 40)
	rep(2, 881, 41)
	rep(1, 880, 42) // equivocation
	rep(3, 882, 500)
	s.Authorize(s.BuildAuth(hx.AuthSpec{ID: 3, Key: "d3", Cap: 101, Signer: "gca"})) // conflict: ban 3
	rep(2, 883, 43)
	for k := 0; k < 20; k++ {
		rep(uint32(1+c.rng.Intn(2)), uint32(600+c.rng.Intn(500)), uint64(24+c.rng.Intn(90)))
	}
	s.Tick(3300) // rotation
	s.waitOffset(2016)
	rep(1, 3290, 44)
	rep(2, 3000, 45)
	s.Authorize(s.BuildAuth(hx.AuthSpec{ID: 4, Key: "d4", Cap: 100, Signer: "gca"}))
	for k := 0; k < 20; k++ {
		rep(uint32(1+c.rng.Intn(2)), uint32(2900+c.rng.Intn(500)), uint64(24+c.rng.Intn(90)))
	}
	s.Tick(3300 + 2016 + 40)
	s.waitOffset(4032)
	rep(4, 3300+2016, 46)
	time.Sleep(100 * time.Millisecond)
	s.Close()
	return nil
}

func runCrashChild(c *ctx) error {
	t, err := hx.NewTrace(c.out)
	if err != nil {
		return err
	}
	t.Sync = true
	s := newScn(c, t)
	s.WithDisk = true
	s.Quiet["ImpactList"] = true
	s.Dir = os.Getenv("VERIF_DIR")
	first := os.Getenv("VERIF_FIRST") == "1"
	if first {
		s.NewDir(filepath.Dir(s.Dir), filepath.Base(s.Dir))
	}
	// the keys of the harness must be the same in parent and child: they are passed in a file
	if err := s.KR.LoadOrSave(os.Getenv("VERIF_KEYS")); err != nil {
		return err
	}
	if err := s.SR.Journal(os.Getenv("VERIF_SIGS")); err != nil {
		return err
	}
	if first {
		tk := s.KR.Pub("temp")
		os.WriteFile(filepath.Join(s.Dir, "gcaTempPubKey.dat"), tk[:], 0644)
	}
	return crashWorkload(s, c, first)
}

func appendFile(dst *hx.Trace, path string) int {
	f, err := os.Open(path)
	if err != nil {
		return 0
	}
	defer f.Close()
	sc := bufio.NewScanner(f)
	sc.Buffer(make([]byte, 1<<20), 64<<20)
	n := 0
	for sc.Scan() {
		line := sc.Text()
		if strings.HasSuffix(line, "}") {
			dst.Raw(line)
			n++
		}
	}
	return n
}

func runCrash(c *ctx) error {
	t, err := hx.NewTrace(c.out)
	if err != nil {
		return err
	}
	self, _ := os.Executable()
	keys := filepath.Join(c.root, "keys.json")
	s := newScn(c, t)
	s.WithDisk = true
	s.Quiet["ImpactList"] = true
	if err := s.KR.LoadOrSave(keys); err != nil {
		return err
	}
	type plan struct {
		name  string
		point string
		skip  int
		kill  time.Duration
		edit  string // file made empty before the restart (an intermediate state of a two-call write)
		sysf  string // with sysn: SIGKILL (injected with strace) on entry to the n-th write system call on this file
		sysn  int
	}
	var plans []plan
	points := []string{"register:after-write", "authorize:after-write", "report:before-append", "report:after-append", "rotate:after-write"}
	for _, p := range points {
		for _, k := range []int{0, 1, 3} {
			plans = append(plans, plan{name: fmt.Sprintf("crash/point/%s/%d", p, k), point: p, skip: k})
		}
	}
	plans = append(plans, plan{name: "crash/point/report:after-append/25", point: "report:after-append", skip: 25},
		plan{name: "crash/point/rotate:after-write/1b", point: "rotate:after-write", skip: 1})
	nkill := 4
	if c.tier == "thorough" {
		nkill = 30
	}
	for i := 0; i < nkill; i++ {
		plans = append(plans, plan{name: fmt.Sprintf("crash/sigkill/%d", i), kill: time.Duration(20+c.rng.Intn(700)) * time.Millisecond})
	}
	plans = append(plans, plan{name: "crash/empty/server.keys", kill: 30 * time.Millisecond, edit: "server.keys"},
		plan{name: "crash/early", kill: time.Millisecond, edit: "server.keys"},
		plan{name: "crash/empty/gcaPubKey.dat-unregistered", point: "register:after-write", edit: "gcaPubKey.dat"},
		plan{name: "crash/empty/equipment-reports.dat", point: "authorize:after-write", skip: 2, edit: "equipment-reports.dat"})
	// the n-th write system call on each file the server writes: the process is killed on entry to
	// the call, i.e. after the preceding open/create/truncate took effect
	sysAll := map[string][]int{"server.keys": {1}, "gcaPubKey.dat": {1}, "equipment-authorizations.dat": {1, 2, 3, 4, 5},
		"allDeviceStats.dat": {1, 2}, "equipment-reports.dat": {1, 2, 3, 4, 5, 6, 7, 20, 27, 28, 29, 48, 49}}
	if _, err := exec.LookPath("strace"); err == nil && os.Getenv("VERIF_NO_STRACE") == "" {
		for f, ns := range sysAll {
			for _, n := range ns {
				plans = append(plans, plan{name: fmt.Sprintf("crash/syscall/%s/%d", f, n), sysf: f, sysn: n})
			}
		}
	}
	if c.tier != "thorough" {
		// quick: a seeded half of the crash points
		var keep []plan
		for i, p := range plans {
			if p.edit != "" || p.kill > 0 || (p.sysf != "" && (p.sysf != "equipment-reports.dat" || p.sysn <= 4)) || (i+int(c.seed))%2 == 0 {
				keep = append(keep, p)
			}
		}
		plans = keep
	}
	for i, p := range plans {
		dir := filepath.Join(c.root, fmt.Sprintf("crashdir%d", i))
		child := filepath.Join(c.root, fmt.Sprintf("child%d.ndjson", i))
		cargs := []string{self, "crashchild", "--seed", fmt.Sprint(c.seed + int64(i)), "--out", child, "--root", filepath.Join(c.root, fmt.Sprintf("cr%d", i))}
		if p.sysf != "" {
			cargs = append([]string{"strace", "-f", "-qq", "-o", "/dev/null", "-P", filepath.Join(dir, p.sysf), "-e", "trace=write",
				"-e", fmt.Sprintf("inject=write:signal=SIGKILL:when=%d", p.sysn)}, cargs...)
		}
		cmd := exec.Command(cargs[0], cargs[1:]...)
		cmd.Env = append(os.Environ(), "VERIF_DIR="+dir, "VERIF_FIRST=1", "VERIF_KEYS="+keys, "VERIF_SIGS="+child+".sigs", "VERIF_SCN="+p.name,
			"VERIF_CRASH="+p.point, fmt.Sprintf("VERIF_CRASH_SKIP=%d", p.skip))
		if err := cmd.Start(); err != nil {
			return err
		}
		done := make(chan error, 1)
		go func() { done <- cmd.Wait() }()
		killed := false
		if p.kill > 0 {
			select {
			case <-done:
			case <-time.After(p.kill):
				cmd.Process.Signal(syscall.SIGKILL)
				<-done
				killed = true
			}
		} else {
			select {
			case <-done:
			case <-time.After(60 * time.Second):
				cmd.Process.Kill()
				<-done
				return fmt.Errorf("crash child %s did not finish", p.name)
			}
		}
		n := appendFile(t, child)
		s.SR.LoadJournal(child + ".sigs")
		os.Remove(child)
		os.Remove(child + ".sigs")
		if n == 0 {
			// killed before its first event: the scenario starts here
			t.Scenario(p.name)
			s.Tick(900)
		}
		code := cmd.ProcessState.ExitCode()
		t.Emit(hx.J{"a": "Crash", "scn": p.name, "point": p.point, "skip": p.skip, "sigkill": killed, "exit": code})
		opOK := true
		if fi, err := os.Stat(filepath.Join(dir, "gcaTempPubKey.dat")); err != nil || fi.Size() != 32 {
			opOK = false
		}
		for _, f := range []string{"username", "password"} {
			if fi, err := os.Stat(filepath.Join(dir, "watttime_data", f)); err != nil || fi.Size() == 0 {
				opOK = false
			}
		}
		if !opOK {
			// the child was killed before the operator's part of the set-up (directory, temporary key,
			// credentials) was complete: that part is not the server's, it is completed here
			s.NewDir(c.root, fmt.Sprintf("crashdir%d", i))
		}
		edited := false
		if p.edit != "" {
			if _, err := os.Stat(filepath.Join(dir, p.edit)); err == nil || p.edit == "server.keys" {
				os.WriteFile(filepath.Join(dir, p.edit), nil, 0644)
				edited = true
			}
		}
		s.Dir = dir
		s.Srv = nil
		s.LoadServerKey(dir)
		t.Emit(hx.J{"a": "DiskIs", "scn": p.name, "disk": s.Disk(dir), "edited": edited})
		// the clock of the parent follows the child's last Tick
		s.SyncClockFromTrace(t)
		if err := s.Start(); err == nil {
			// an unregistered server must still accept its registration; a registered one refuses
			s.Register("gca", "temp", "gca")
			s.Authorize(s.BuildAuth(hx.AuthSpec{ID: 9, Key: "d9", Cap: 100, Signer: "gca"}))
			s.Deliver(s.ReportBytes(9, s.Now()-3, 77, "d9", 0))
			s.CheckInv()
			s.Restart()
			s.Close()
		}
		os.RemoveAll(dir)
	}
	c.summary["crashes"] = len(plans)
	c.summary["events"] = t.Events
	c.summary["counts"] = t.Counts
	c.summary["samples"] = t.Sample
	return t.Close()
}
