package main

import (
	"bytes"
	"fmt"
	"io"
	"log"
	"net"
	"net/http"
	"strings"
	"sync"
	"syscall"
	"time"

	"verifharness/hx"
)

// Family "robust" (C12): every endpoint x method x request class, with a
// liveness probe after each request and the net/http panic log captured;
// authorized peers that are down; TCP connections left idle or half sent at
// shutdown, Close() under a deadline.

func init() { families["robust"] = runRobust }

type logCapture struct {
	mu  sync.Mutex
	buf bytes.Buffer
}

func (l *logCapture) Write(p []byte) (int, error) {
	l.mu.Lock()
	defer l.mu.Unlock()
	return l.buf.Write(p)
}

func (l *logCapture) takePanics() int {
	l.mu.Lock()
	defer l.mu.Unlock()
	n := strings.Count(l.buf.String(), "http: panic serving")
	l.buf.Reset()
	return n
}

func runRobust(c *ctx) error {
	t, err := hx.NewTrace(c.out)
	if err != nil {
		return err
	}
	lc := &logCapture{}
	log.SetOutput(lc)
	s := newScn(c, t)
	s.Quiet["ImpactList"] = true
	s.WithDisk = false
	rng := c.rng
	if c.only == "stalled" {
		return runStalled(c, t, s, lc)
	}
	if err := s.fresh("robust/http", 1000); err != nil {
		return err
	}
	for i := uint32(1); i <= 2; i++ {
		if err := s.device(i, fmt.Sprintf("d%d", i), 100); err != nil {
			return err
		}
	}
	s.Deliver(s.ReportBytes(1, 990, 50, "d1", 0))
	do := func(ep, method, cls, query string, body []byte) {
		url := s.URL("/api/v1/" + ep + query)
		req, err := http.NewRequest(method, url, bytes.NewReader(body))
		if err != nil {
			return
		}
		st := -1
		errText := ""
		// these requests fail validation and change nothing: a transport-level hiccup of the
		// loopback connection is retried, it is not an observation about the server
		for attempt := 0; attempt < 4 && st == -1; attempt++ {
			if attempt > 0 {
				time.Sleep(50 * time.Millisecond)
				req, _ = http.NewRequest(method, url, bytes.NewReader(body))
			}
			if resp, err := s.HTTP.Do(req); err == nil {
				io.Copy(io.Discard, resp.Body)
				resp.Body.Close()
				st = resp.StatusCode
			} else {
				errText = err.Error()
			}
		}
		pst, _ := s.Get("/api/v1/equipment")
		t.Emit(hx.J{"a": "Http", "ep": ep, "method": method, "cls": cls, "query": query, "status": st, "probe": pst, "panic": lc.takePanics() > 0, "err": errText, "bodylen": len(body)})
	}
	eps := []string{"all-device-stats", "authorized-servers", "authorize-equipment", "equipment", "equipment-migrate", "register-gca", "recent-reports", "geo-stats", "archive"}
	allowed := map[string][]string{"authorize-equipment": {"POST"}, "equipment-migrate": {"POST"}, "register-gca": {"POST"}, "authorized-servers": {"GET", "POST"}}
	isAllowed := func(ep, m string) bool {
		a, ok := allowed[ep]
		if !ok {
			a = []string{"GET"}
		}
		for _, x := range a {
			if x == m {
				return true
			}
		}
		return false
	}
	badJSON := [][]byte{[]byte("{"), []byte("not json"), []byte(`[1,2,3]`), []byte(`"str"`), []byte(`123`), []byte(`{"a":}`), bytes.Repeat([]byte("["), 20000)}
	zeroJSON := [][]byte{[]byte("{}"), []byte(`{"PublicKey":[1,2,3]}`), []byte(`{"unknown":{"deep":[1,2,{"x":null}]}}`), []byte(`{"Signature":[]}`), []byte(" {} ")}
	big := make([]byte, 60000)
	rng.Read(big)
	badJSON = append(badJSON, big)
	rounds := 1
	if c.tier == "thorough" {
		rounds = 4
	}
	for r := 0; r < rounds; r++ {
		for _, ep := range eps {
			for _, m := range []string{"GET", "POST", "PUT", "DELETE", "PATCH", "HEAD", "OPTIONS"} {
				if !isAllowed(ep, m) {
					do(ep, m, "wrong-method", "", nil)
					do(ep, m, "wrong-method", "?timeslot_offset=0&publicKey=00", []byte("{}"))
					continue
				}
				if m == "POST" {
					for _, b := range badJSON {
						do(ep, m, "bad-json", "", b)
					}
					for _, b := range zeroJSON {
						do(ep, m, "zero-json", "", b)
					}
					continue
				}
				switch ep {
				case "all-device-stats":
					do(ep, m, "param-missing", "", nil)
					for _, q := range []string{"abc", "-1", "4294967296", "1e3", "0x10", "%00", " 0", "99999999999999999999"} {
						do(ep, m, "param-garbage", "?timeslot_offset="+q, nil)
					}
					for _, q := range []string{"1", "2015", "2017", "4294967295"} {
						do(ep, m, "param-misaligned", "?timeslot_offset="+q, nil)
					}
					do(ep, m, "plain", "?timeslot_offset=0", nil)
					do(ep, m, "plain", "?timeslot_offset=4294965888", nil)
					do(ep, m, "body-on-get", "?timeslot_offset=0", []byte("xx"))
				case "recent-reports":
					do(ep, m, "param-missing", "", nil)
					for _, q := range []string{"zz", "abcd", strings.Repeat("00", 31), strings.Repeat("00", 33), strings.Repeat("0", 63)} {
						do(ep, m, "param-garbage", "?publicKey="+q, nil)
					}
					do(ep, m, "key-unknown", "?publicKey="+strings.Repeat("ab", 32), nil)
					pk := s.KR.Pub("d1")
					do(ep, m, "plain", fmt.Sprintf("?publicKey=%x", pk[:]), nil)
				case "geo-stats":
					do(ep, m, "param-garbage", "?latitude=x&longitude=1", nil)
					do(ep, m, "param-garbage", "", nil)
					do(ep, m, "plain", "?latitude=1e308&longitude=-1e308", nil)
					do(ep, m, "plain", "?latitude=NaN&longitude=Inf", nil)
				case "archive":
					do(ep, m, "body-on-get", "", []byte("x"))
					do(ep, m, "plain", "", nil)
					do(ep, m, "plain", "", nil)
					do(ep, m, "plain", "", nil)
					do(ep, m, "plain", "", nil)
				default:
					do(ep, m, "plain", "", nil)
					do(ep, m, "body-on-get", "", []byte("{}"))
				}
			}
		}
		do("nonexistent", "GET", "other", "", nil)
		do("all-device-stats/../equipment", "GET", "other", "", nil)
	}

	// authorized peers that are down: a new equipment authorization is forwarded to them
	if err := s.fresh("robust/peers-down", 1000); err != nil {
		return err
	}
	l, _ := net.Listen("tcp", "127.0.0.1:0")
	deadPort := uint16(l.Addr().(*net.TCPAddr).Port)
	l.Close()
	s.AuthorizeServer(s.BuildServer(hx.ServerSpec{Key: "peer1", Loc: "127.0.0.1", Ports: [3]uint16{deadPort, 1, 1}, Signer: "gca"}))
	s.AuthorizeServer(s.BuildServer(hx.ServerSpec{Key: "peer2", Loc: "256.1.1.1", Ports: [3]uint16{80, 1, 1}, Signer: "gca"}))
	s.AuthorizeServer(s.BuildServer(hx.ServerSpec{Key: "peer3", Loc: "", Ports: [3]uint16{0, 0, 0}, Signer: "gca"}))
	for i := uint32(1); i <= 3; i++ {
		s.Authorize(s.BuildAuth(hx.AuthSpec{ID: i, Key: fmt.Sprintf("d%d", i), Cap: 100, Signer: "gca"}))
		pst, _ := s.Get("/api/v1/equipment")
		t.Emit(hx.J{"a": "Http", "ep": "equipment", "method": "GET", "cls": "plain", "query": "", "status": pst, "probe": pst, "panic": lc.takePanics() > 0})
	}
	s.AuthorizeServer(s.BuildServer(hx.ServerSpec{Key: "peer4", Loc: "127.0.0.1", Ports: [3]uint16{deadPort, 1, 1}, Signer: "gca"}))
	t.Emit(hx.J{"a": "LogPanics", "n": lc.takePanics()})

	// connections left idle / half sent at shutdown
	for _, shape := range [][2]int{{1, 0}, {0, 1}, {2, 2}, {0, 0}} {
		if err := s.fresh(fmt.Sprintf("robust/shutdown/%d-%d", shape[0], shape[1]), 1000); err != nil {
			return err
		}
		_, tp, _ := s.Srv.Ports()
		var conns []net.Conn
		for i := 0; i < shape[0]+shape[1]; i++ {
			cn, err := net.Dial("tcp", fmt.Sprintf("127.0.0.1:%d", tp))
			if err != nil {
				continue
			}
			if i >= shape[0] {
				cn.Write([]byte{1, 0})
			}
			conns = append(conns, cn)
		}
		// an idle HTTP connection as well
		_, _, _ = s.Srv.Ports()
		time.Sleep(50 * time.Millisecond)
		t.Emit(hx.J{"a": "Conns", "idle": shape[0], "half": shape[1]})
		s.Close() // records duration, hang
		for _, cn := range conns {
			cn.Close()
		}
	}
	t.Emit(hx.J{"a": "LogPanics", "n": lc.takePanics()})
	c.summary["events"] = t.Events
	c.summary["counts"] = t.Counts
	c.summary["samples"] = t.Sample
	return t.Close()
}

// runStalled (--only stalled): clients request the largest reply the server produces - the live statistics of well over a
// thousand devices, more than the kernel buffers of a connection hold - and then stop reading it (tiny receive buffers).
// Other requests keep being answered, reports keep being handled, and the server can be shut down. The many
// authorizations are not traced (their events would make the trace quadratic): this trace is validated for its
// Http / Start events only.
func runStalled(c *ctx, t *hx.Trace, s *scn, lc *logCapture) error {
	for _, q := range []string{"Authorize", "RecvReport", "UDPRead", "Direct", "ImpactSet", "RotPoll", "QueryStats", "QueryEquipment", "QueryRecent"} {
		s.Quiet[q] = true
	}
	s.NoResp = true
	if err := s.fresh("robust/stalled-reader", 1000); err != nil {
		return err
	}
	ndev := 1400
	for i := uint32(1); i <= uint32(ndev); i++ {
		s.Authorize(s.BuildAuth(hx.AuthSpec{ID: i, Key: fmt.Sprintf("st%d", i), Cap: 100, Signer: "gca"}))
	}
	hp, _, _ := s.Srv.Ports()
	var stalled []net.Conn
	for _, path := range []string{"/api/v1/all-device-stats", "/api/v1/all-device-stats?timeslot_offset=0", "/api/v1/equipment"} {
		d := net.Dialer{Timeout: 3 * time.Second, Control: func(network, address string, rc syscall.RawConn) error {
			return rc.Control(func(fd uintptr) { syscall.SetsockoptInt(int(fd), syscall.SOL_SOCKET, syscall.SO_RCVBUF, 2048) })
		}}
		cn, err := d.Dial("tcp", fmt.Sprintf("127.0.0.1:%d", hp))
		if err != nil {
			continue
		}
		fmt.Fprintf(cn, "GET %s HTTP/1.1\r\nHost: x\r\n\r\n", path)
		stalled = append(stalled, cn)
	}
	time.Sleep(1500 * time.Millisecond)
	client := &http.Client{Timeout: 8 * time.Second, Transport: &http.Transport{DisableKeepAlives: true}}
	for k := 0; k < 2; k++ {
		pst := -1
		if resp, err := client.Get(fmt.Sprintf("http://127.0.0.1:%d/api/v1/equipment", hp)); err == nil {
			io.Copy(io.Discard, resp.Body)
			resp.Body.Close()
			pst = resp.StatusCode
		}
		t.Emit(hx.J{"a": "Http", "ep": "equipment", "method": "GET", "cls": "plain", "query": "", "status": pst, "probe": pst, "panic": lc.takePanics() > 0})
	}
	t.Emit(hx.J{"a": "Conns", "idle": 0, "half": len(stalled)})
	s.Close() // records duration, hang
	for _, cn := range stalled {
		cn.Close()
	}
	t.Emit(hx.J{"a": "LogPanics", "n": lc.takePanics()})
	c.summary["events"] = t.Events
	c.summary["counts"] = t.Counts
	c.summary["devices"] = ndev
	return t.Close()
}
