package main

import (
	"archive/zip"
	"bytes"
	"fmt"
	"io"
	"os"
	"path/filepath"
	"sort"
	"sync"
	"syscall"
	"time"

	"github.com/glowlabs-org/gca-backend/glow"
	"github.com/glowlabs-org/gca-backend/server"
	"verifharness/hx"
)

// Family "archive" (C14): for every gap between two files being added to the
// archive, every write burst is injected there; randomized concurrent
// writers; request bursts against the rate limit.

func init() { families["archive"] = runArchive }

type arcEnv struct {
	*scn
	ta   *hx.Trace
	next uint32
}

// decode describes a downloaded zip.
func (a *arcEnv) decode(status int, body []byte, note string) {
	j := hx.J{"a": "Archive", "status": status, "note": note, "registered": a.Srv.VerifSnapshot().GCAAvailable, "tails": []int{0, 0, 0}, "leak": false, "names": []string{}, "reports": []hx.J{}, "auths": []hx.J{},
		"stats": []hx.J{}, "gca": "absent", "pubkeyok": false, "prefix": true,
		"expectednames": []string{"allDeviceStats.dat", "equipment-reports.dat", "equipment-authorizations.dat", "gcaPubKey.dat", "gcaTempPubKey.dat", "server.pubkey", "README"}}
	if status != 200 {
		a.ta.Emit(j)
		return
	}
	zr, err := zip.NewReader(bytes.NewReader(body), int64(len(body)))
	if err != nil {
		j["status"] = -5
		a.ta.Emit(j)
		return
	}
	files := map[string][]byte{}
	names := []string{}
	for _, f := range zr.File {
		rc, _ := f.Open()
		b, _ := io.ReadAll(rc)
		rc.Close()
		files[f.Name] = b
		names = append(names, f.Name)
	}
	j["names"] = names
	priv := a.KR.Priv("srv")
	leak := false
	for _, b := range files {
		if bytes.Contains(b, priv[:]) || bytes.Contains(b, priv[:16]) {
			leak = true
		}
	}
	if bytes.Contains(body, priv[:]) {
		leak = true
	}
	j["leak"] = leak
	var apub glow.PublicKey
	copy(apub[:], files["server.pubkey"])
	j["pubkeyok"] = len(files["server.pubkey"]) == 32 && apub == a.Srv.PublicKey()
	tails := []int{0, 0, 0}
	// authorizations
	auths := []hx.J{}
	b := files["equipment-authorizations.dat"]
	for len(b) >= 148 {
		ra, _ := hx.RefAuthDecode(b[:148])
		auths = append(auths, a.Auth(ra))
		b = b[148:]
	}
	tails[0] = len(b)
	j["auths"] = auths
	reps := []hx.J{}
	b = files["equipment-reports.dat"]
	for len(b) >= 80 {
		r := a.Datagram(b[:80])
		reps = append(reps, r)
		b = b[80:]
	}
	tails[1] = len(b)
	j["reports"] = reps
	weeks, rest := hx.RefWeekStreamDecode(files["allDeviceStats.dat"])
	tails[2] = rest
	stats := []hx.J{}
	for _, w := range weeks {
		stats = append(stats, hx.J{"off": hx.Clamp30(uint64(w.TimeslotOffset)), "sigok": glow.Verify(apub, hx.RefWeekSigningBytes(w), w.Signature)})
	}
	j["stats"] = stats
	j["tails"] = tails
	if g := files["gcaPubKey.dat"]; len(g) == 32 {
		var k glow.PublicKey
		copy(k[:], g)
		j["gca"] = a.KR.Name(k)
	} else if len(g) != 0 {
		j["gca"] = "bad"
	}
	// every archived file is a prefix of the file as it is now
	prefix := true
	for _, n := range []string{"allDeviceStats.dat", "equipment-reports.dat", "equipment-authorizations.dat", "gcaPubKey.dat", "gcaTempPubKey.dat"} {
		cur, _ := os.ReadFile(filepath.Join(a.Dir, n))
		if !bytes.HasPrefix(cur, files[n]) {
			prefix = false
		}
	}
	j["prefix"] = prefix
	a.ta.Emit(j)
}

func (a *arcEnv) fetch(note string) {
	for try := 0; try < 20; try++ {
		st, body := a.Get("/api/v1/archive")
		if st == 429 {
			time.Sleep(25 * time.Millisecond)
			continue
		}
		a.decode(st, body, note)
		return
	}
	a.ta.Emit(hx.J{"a": "DriverNote", "note": "archive kept answering 429"})
}

func (a *arcEnv) newDeviceWithReport() {
	a.next++
	id := a.next
	key := fmt.Sprintf("ad%d", id)
	a.Authorize(a.BuildAuth(hx.AuthSpec{ID: id, Key: key, Cap: 1000, Signer: "gca"}))
	a.Deliver(a.ReportBytes(id, a.Now()-uint32(id%50), 50+uint64(id), key, 0))
}

func runArchive(c *ctx) error {
	t, err := hx.NewTrace(c.out)
	if err != nil {
		return err
	}
	ta, err := hx.NewTrace(c.out + ".arc")
	if err != nil {
		return err
	}
	s := newScn(c, t)
	// (the server's own events are not what this family validates; report events with their state projection would
	// make the bulk loads below quadratic)
	for _, q := range []string{"ImpactList", "ImpactSet", "RotPoll", "RotGo", "UDPRead", "RecvReport", "Direct"} {
		s.Quiet[q] = true
	}
	a := &arcEnv{scn: s, ta: ta, next: 100}
	points := []string{}
	for _, pf := range server.PublicFiles {
		points = append(points, "archive:before:"+pf)
	}
	points = append(points, "archive:before:server.pubkey")
	gates := map[string]*hx.Gate{}
	for _, p := range points {
		gates[p] = s.NewGate(p)
	}
	inGap := func(point, note string, burst func()) error {
		g := gates[point]
		g.Arm()
		var st int
		var body []byte
		done := make(chan struct{})
		go func() {
			for try := 0; try < 40; try++ {
				st, body = s.Get("/api/v1/archive")
				if st != 429 {
					break
				}
				time.Sleep(25 * time.Millisecond)
			}
			close(done)
		}()
		reached := make(chan bool, 1)
		go func() { reached <- g.WaitReached(5*time.Second) != nil }()
		select {
		case ok := <-reached:
			if !ok {
				g.Release()
				<-done
				return fmt.Errorf("archive request did not reach %s (status %d, %d bytes: %.80s)", point, st, len(body), string(body))
			}
		case <-done:
			// the request ended before this gap (an unregistered server has no GCA key file to archive)
			g.Release()
			a.decode(st, body, note+" (ended before "+point+")")
			return nil
		}
		burst()
		g.Release()
		<-done
		a.decode(st, body, note+" @ "+point)
		return nil
	}
	// bursts in every gap on a registered server
	if err := s.fresh("archive/gaps", 1000); err != nil {
		return err
	}
	a.newDeviceWithReport()
	a.fetch("baseline")
	clock := uint32(1000)
	for _, p := range points {
		if err := inGap(p, "new device + first report", a.newDeviceWithReport); err != nil {
			return err
		}
	}
	for i, p := range points {
		if i%2 == int(c.seed)%2 || c.tier == "thorough" {
			if err := inGap(p, "rotation", func() {
				off := s.Srv.VerifSnapshot().Offset
				clock = off + 3201
				s.Tick(clock)
				s.waitOffset(off + 2016)
				a.newDeviceWithReport()
			}); err != nil {
				return err
			}
		}
	}
	// registration + first device in every gap: one unregistered server per gap
	for i, p := range points {
		s.Close()
		s.n++
		t.Scenario(fmt.Sprintf("archive/register/%d", i))
		s.NewDir(c.root, fmt.Sprintf("srv%d", s.n))
		s.Tick(1000)
		if err := s.Start(); err != nil {
			return err
		}
		a.fetch("unregistered")
		if err := inGap(p, "registration + first device", func() {
			s.Register("gca", "temp", "gca")
			a.newDeviceWithReport()
		}); err != nil {
			return err
		}
	}
	// a server that starts on the disk state a crash inside the registration leaves (GCA key file present but empty):
	// archived while unregistered, then registered with a first device, then archived again - the later archive must
	// carry the key that signed the authorizations beside it
	{
		s.Close()
		s.n++
		t.Scenario("archive/register/emptykey")
		s.NewDir(c.root, fmt.Sprintf("srv%d", s.n))
		if err := os.WriteFile(filepath.Join(s.Dir, "gcaPubKey.dat"), nil, 0644); err != nil {
			return err
		}
		s.Tick(1000)
		if err := s.Start(); err != nil {
			return err
		}
		a.fetch("unregistered, empty key file")
		s.Register("gca", "temp", "gca")
		a.newDeviceWithReport()
		a.fetch("registered after the empty key file was archived")
	}
	// randomized concurrent writers
	if err := s.fresh("archive/concurrent", 1000); err != nil {
		return err
	}
	stop := make(chan struct{})
	var wg sync.WaitGroup
	var wmu sync.Mutex
	for w := 0; w < 3; w++ {
		wg.Add(1)
		go func() {
			defer wg.Done()
			for {
				select {
				case <-stop:
					return
				default:
				}
				wmu.Lock()
				a.newDeviceWithReport()
				wmu.Unlock()
				time.Sleep(time.Duration(c.rng.Intn(3)) * time.Millisecond)
			}
		}()
	}
	nf := 6
	if c.tier == "thorough" {
		nf = 40
	}
	for i := 0; i < nf; i++ {
		a.fetch("concurrent writers")
		time.Sleep(22 * time.Millisecond)
	}
	close(stop)
	wg.Wait()
	// request bursts against the rate limit
	consts := server.VerifConsts()
	for round := 0; round < 3; round++ {
		time.Sleep(80 * time.Millisecond)
		type call struct {
			before, after int64
			status        int
		}
		var calls []call
		var cmu sync.Mutex
		base := time.Now()
		var wg2 sync.WaitGroup
		for g := 0; g < 12; g++ {
			wg2.Add(1)
			go func() {
				defer wg2.Done()
				for k := 0; k < 3; k++ {
					b := time.Since(base).Microseconds()
					st, _ := s.Get("/api/v1/archive")
					af := time.Since(base).Microseconds()
					cmu.Lock()
					calls = append(calls, call{b, af, st})
					cmu.Unlock()
				}
			}()
		}
		wg2.Wait()
		sort.Slice(calls, func(i, j int) bool { return calls[i].before < calls[j].before })
		ok := [][]int{}
		statuses := []int{}
		n200 := 0
		for _, cl := range calls {
			statuses = append(statuses, cl.status)
			if cl.status == 200 {
				n200++
				ok = append(ok, []int{int(cl.before), int(cl.after)})
			}
		}
		ta.Emit(hx.J{"a": "Burst", "ok": ok, "statuses": statuses, "n200": n200, "rate_us": int(consts["apiArchiveRateMs"] * 1000), "limit": int(consts["apiArchiveLimit"])})
	}
	// the append of a new device's authorization is stalled (a pipe in place of the file); the device's first report
	// arrives meanwhile; an archive taken then must still be dependency-closed (the report is on disk only after its
	// authorization is)
	for round := 0; round < 2; round++ {
		a.next++
		id := a.next
		key := fmt.Sprintf("ad%d", id)
		auth := a.BuildAuth(hx.AuthSpec{ID: id, Key: key, Cap: 1000, Signer: "gca"})
		path := filepath.Join(a.Dir, "equipment-authorizations.dat")
		if err := os.Rename(path, path+".real"); err != nil {
			break
		}
		if err := syscall.Mkfifo(path, 0644); err != nil {
			os.Rename(path+".real", path)
			break
		}
		s.NoResp = true
		adone := make(chan struct{})
		go func() { a.Authorize(auth); close(adone) }()
		time.Sleep(80 * time.Millisecond)
		rep := a.ReportBytes(id, a.Now()-1, 60+uint64(round), key, 0)
		a.SendUDPNoWait(rep)
		time.Sleep(80 * time.Millisecond)
		os.Rename(path, path+".fifo")
		os.Rename(path+".real", path)
		st, body := -1, []byte(nil)
		for try := 0; try < 20; try++ {
			st, body = a.Get("/api/v1/archive")
			if st != 429 {
				break
			}
			time.Sleep(25 * time.Millisecond)
		}
		// the append completes: what the server writes into the pipe is put where it belongs
		if f, err := os.OpenFile(path+".fifo", os.O_RDONLY, 0); err == nil {
			b, _ := io.ReadAll(f)
			f.Close()
			if g, err := os.OpenFile(path, os.O_APPEND|os.O_WRONLY, 0644); err == nil {
				g.Write(b)
				g.Close()
			}
		}
		select {
		case <-adone:
		case <-time.After(5 * time.Second):
		}
		os.Remove(path + ".fifo")
		s.NoResp = false
		a.Deliver(rep) // the report again, now that its device is on disk (a duplicate if it was accepted before)
		a.decode(st, body, "authorization append stalled")
	}
	// several archives of large files served at the same time (the limiter admits its whole allowance at once): each
	// one is a well-formed zip whose files are record-aligned prefixes of the files on disk
	{
		rate := time.Duration(consts["apiArchiveRateMs"]) * time.Millisecond
		limit := int(consts["apiArchiveLimit"])
		var big []uint32
		for d := 0; d < 6; d++ {
			a.next++
			id := a.next
			a.Authorize(a.BuildAuth(hx.AuthSpec{ID: id, Key: fmt.Sprintf("ad%d", id), Cap: 100000, Signer: "gca"}))
			big = append(big, id)
		}
		now := a.Now()
		for k := uint32(0); k < 700; k++ {
			for _, id := range big {
				a.Srv.VerifHandleDatagram(a.ReportBytes(id, now-k%430, 100+uint64(k), fmt.Sprintf("ad%d", id), 0))
			}
		}
		for round := 0; round < 4; round++ {
			time.Sleep(rate + 20*time.Millisecond)
			var wg3 sync.WaitGroup
			for g := 0; g < limit; g++ {
				wg3.Add(1)
				go func() {
					defer wg3.Done()
					st, body := s.Get("/api/v1/archive")
					j := hx.J{"a": "ArchiveBig", "status": st, "zipok": false, "prefix": false, "aligned": false, "bytes": len(body)}
					if st == 200 {
						zr, err := zip.NewReader(bytes.NewReader(body), int64(len(body)))
						zipok, prefix, aligned := err == nil, true, true
						if err == nil {
							for _, f := range zr.File {
								rc, e1 := f.Open()
								if e1 != nil {
									zipok = false
									continue
								}
								b, e2 := io.ReadAll(rc) // a checksum error shows here
								rc.Close()
								if e2 != nil {
									zipok = false
								}
								if cur, e3 := os.ReadFile(filepath.Join(a.Dir, f.Name)); e3 == nil && !bytes.HasPrefix(cur, b) {
									prefix = false
								}
								if (f.Name == "equipment-reports.dat" && len(b)%80 != 0) || (f.Name == "equipment-authorizations.dat" && len(b)%148 != 0) {
									aligned = false
								}
							}
						}
						j["zipok"], j["prefix"], j["aligned"] = zipok, prefix, aligned
					}
					ta.Emit(j)
				}()
			}
			wg3.Wait()
		}
	}
	// paced requests: one opens a window, the rest of the allowance comes late in it, a burst follows just
	// after the first request has aged out: the window slides, it is not restarted as a whole
	{
		rate := time.Duration(consts["apiArchiveRateMs"]) * time.Millisecond
		limit := int(consts["apiArchiveLimit"])
		for round := 0; round < 4; round++ {
			time.Sleep(rate + 20*time.Millisecond)
			base := time.Now()
			ok := [][]int{}
			statuses := []int{}
			get := func() {
				b := time.Since(base).Microseconds()
				st, _ := s.Get("/api/v1/archive")
				af := time.Since(base).Microseconds()
				statuses = append(statuses, st)
				if st == 200 {
					ok = append(ok, []int{int(b), int(af)})
				}
			}
			get()
			time.Sleep(rate * 6 / 10)
			for k := 1; k < limit; k++ {
				get()
			}
			if d := rate + 2*time.Millisecond - time.Since(base); d > 0 {
				time.Sleep(d)
			}
			for k := 0; k < limit; k++ {
				get()
			}
			ta.Emit(hx.J{"a": "Burst", "ok": ok, "statuses": statuses, "n200": len(ok), "rate_us": int(rate.Microseconds()), "limit": limit})
		}
	}
	s.Close()
	c.summary["events"] = ta.Events
	c.summary["counts"] = ta.Counts
	var small []hx.J
	for _, x := range ta.Sample {
		small = append(small, x)
	}
	c.summary["samples"] = small
	c.summary["limit"] = consts["apiArchiveLimit"]
	ta.Close()
	return t.Close()
}
