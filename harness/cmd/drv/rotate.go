package main

import (
	"fmt"
	"strconv"
	"strings"
	"time"

	"verifharness/hx"
)

// Family "rotate" (C03, C04): histories interleaving reports, authorizations
// and bans, clock advances of every size, restarts and statistics queries
// for every week class with and without insert_false_negatives.

func init() { families["rotate"] = runRotate }

type rot struct {
	*scn
	off  uint32 // the window offset the driver believes the server has
	devs []uint32
	nrep int
	nq   int
	vals []uint64
}

// settle waits for what the background rotation thread has to do after a
// clock change: a rotation if one is due, else one poll.
func (r *rot) settle() error {
	deadline := time.Now().Add(10 * time.Second)
	for {
		off := r.Srv.VerifSnapshot().Offset
		r.off = off
		if int64(r.Now())-int64(off) <= 3200 {
			break
		}
		if time.Now().After(deadline) {
			// recorded, not decided here: the trace specification rejects it
			r.T.Emit(hx.J{"a": "RotationOverdue", "now": int(r.Now()), "offset": int(off)})
			break
		}
		time.Sleep(10 * time.Millisecond)
	}
	w := r.Expect("RotPoll")
	w(2 * time.Second)
	return nil
}

func (r *rot) tick(t uint32) error {
	r.Tick(t)
	return r.settle()
}

func (r *rot) report(id uint32, ts uint32, val uint64) {
	r.Deliver(r.ReportBytes(id, ts, val, fmt.Sprintf("d%d", id), 0))
	r.nrep++
}

// queries asks for every week class.
func (r *rot) queries(negToo bool) {
	classes := []struct {
		param string
		tso   int64
	}{
		{"<absent>", -1}, {"abc", -1}, {"-1", -1}, {"4294967296", -1}, {"1000", 1000},
		{strconv.Itoa(int(r.off) + 1), int64(r.off) + 1},
		{strconv.Itoa(int(r.off)), int64(r.off)}, {strconv.Itoa(int(r.off) + 2016), int64(r.off) + 2016},
		{strconv.Itoa(int(r.off) + 4032), int64(r.off) + 4032}, {"4294965888", 4294965888},
	}
	for w := uint32(0); w < r.off; w += 2016 {
		classes = append(classes, struct {
			param string
			tso   int64
		}{strconv.Itoa(int(w)), int64(w)})
	}
	// the recent-reports window of every device key (authorized, banned, unknown) and malformed requests
	for _, k := range []string{"d1", "d2", "d3", "d4", "x1"} {
		if r.KR.Has(k) {
			r.QueryRecent(k, "")
			r.nq++
		}
	}
	for _, raw := range []string{"<absent>", "zz", "abcd", strings.Repeat("ab", 33)} {
		r.QueryRecent("x1", raw)
		r.nq++
	}
	for _, c := range classes {
		r.QueryStats(c.param, c.tso, false)
		r.nq++
		if negToo {
			r.QueryStats(c.param, c.tso, true)
			r.QueryStats(c.param, c.tso, false)
			r.nq += 2
		}
	}
}

func (r *rot) restart(t uint32) error {
	r.Close()
	r.Tick(t)
	if err := r.Start(); err != nil {
		return err
	}
	return r.settle()
}

func (r *rot) fill(n int) {
	now := r.Now()
	for i := 0; i < n; i++ {
		id := r.devs[r.c.rng.Intn(len(r.devs))]
		d := r.c.rng.Intn(865) - 432
		ts := int64(now) + int64(d)
		if ts < 0 {
			continue
		}
		v := r.vals[r.c.rng.Intn(len(r.vals))]
		r.report(id, uint32(ts), v)
		if r.c.rng.Intn(12) == 0 {
			// the same content under another valid signature of the device: a distinct report (the slot is
			// banned), and it stays one after every restart
			r.Deliver(r.ReportBytes(id, uint32(ts), v, fmt.Sprintf("d%d", id), 1))
			r.nrep++
		}
	}
}

func runRotate(c *ctx) error {
	t, err := hx.NewTrace(c.out)
	if err != nil {
		return err
	}
	s := newScn(c, t)
	s.WithDisk = true
	s.Quiet["ImpactList"] = true
	r := &rot{scn: s, vals: []uint64{2, 30, 77, 135, 136, 1 << 63, ^uint64(0) - 99, 1<<63 - 1}}
	begin := func(name string, t0 uint32, ndev int) error {
		if err := s.fresh(name, t0); err != nil {
			return err
		}
		r.off = 0
		r.devs = nil
		for i := 1; i <= ndev; i++ {
			if err := s.device(uint32(i), fmt.Sprintf("d%d", i), 100); err != nil {
				return err
			}
			r.devs = append(r.devs, uint32(i))
		}
		return nil
	}
	liveq := func() {
		for _, w := range []uint32{r.off, r.off + 2016} {
			r.QueryStats(strconv.Itoa(int(w)), int64(w), false)
			r.nq++
		}
	}
	ban := func(id uint32) {
		// both live weeks are asked for immediately before and after the ban, with nothing in between: a
		// record remembered from the first answer must not survive the ban
		liveq()
		defer liveq()
		s.Authorize(s.BuildAuth(hx.AuthSpec{ID: id, Key: fmt.Sprintf("d%d", id), Cap: 12345, Signer: "gca"}))
		var keep []uint32
		for _, d := range r.devs {
			if d != id {
				keep = append(keep, d)
			}
		}
		r.devs = keep
	}
	step := func(err error) error { return err }

	// directed history: trigger boundary, one rotation, archived week queried
	// with the parameter, bans before and after rotation, multi-week catch-up
	if part := c.part("directed"); part {
		if err := begin("rotate/directed", 400, 3); err != nil {
			return err
		}
		r.fill(12)
		r.queries(false)
		for _, tt := range []uint32{1500, 2300, 3100} {
			if err := step(r.tick(tt)); err != nil {
				return err
			}
			r.fill(10)
		}
		// reports do not arrive in timeslot order: a device resends an older slot late, across the week boundary
		r.report(1, 2017, 61)
		r.report(1, 2020, 62)
		r.report(1, 2010, 63)
		r.report(1, 2025, 64)
		r.report(1, 2015, 31)
		r.report(1, 2016, 32)
		r.report(2, 2015, 33)
		r.report(1, 2030, 65)
		r.report(1, 2012, 66)
		ban(3) // banned before the week is archived
		r.queries(false)
		if err := r.tick(3200); err != nil { // exactly the trigger: no rotation
			return err
		}
		r.fill(5)
		r.report(1, 3632, 34)
		if err := r.tick(3201); err != nil { // one past: rotation
			return err
		}
		r.queries(true)
		r.fill(8)
		ban(2) // banned after week 0 was archived: the archived record stays
		r.queries(true)
		if err := r.restart(3300); err != nil { // restart, no catch-up
			return err
		}
		r.queries(false)
		if err := r.tick(5217); err != nil { // offset 2016 + 3201: the next rotation
			return err
		}
		r.fill(8)
		r.queries(true)
		if err := r.restart(5217 + 3*2016); err != nil { // multi-week catch-up at start-up
			return err
		}
		r.fill(6)
		r.queries(true)
		if err := r.restart(r.Now()); err != nil {
			return err
		}
		r.queries(false)
	}
	// a restart (twice) after every operation of a history
	if c.part("everyrestart") {
		if err := begin("rotate/everyrestart", 700, 3); err != nil {
			return err
		}
		rs := func() error {
			if err := r.restart(r.Now()); err != nil {
				return err
			}
			if c.rng.Intn(2) == 0 {
				return r.restart(r.Now())
			}
			return nil
		}
		ops := []func() error{
			func() error { r.report(1, 650, 40); return nil },
			func() error { r.report(1, 650, 41); return nil },  // equivocation
			func() error { r.report(2, 651, 500); return nil }, // over capacity
			func() error { r.report(2, 652, 1<<63+5); return nil },
			func() error { r.report(3, 653, 42); return nil },
			func() error { r.report(3, 653, 42); return nil }, // replay
			func() error { // the same content re-signed: a second valid report for the slot
				r.report(1, 655, 60)
				r.Deliver(r.ReportBytes(1, 655, 60, "d1", 1))
				return nil
			},
			func() error { ban(3); return nil },
			func() error { r.report(3, 654, 43); return nil }, // banned device
			func() error { return r.tick(2500) },
			func() error { r.report(1, 2400, 44); r.report(1, 2016, 45); r.report(1, 2015, 46); return nil },
			func() error { return r.tick(3201) },
			func() error { r.report(1, 3300, 47); return nil },
			func() error {
				s.Authorize(s.BuildAuth(hx.AuthSpec{ID: 4, Key: "d4", Cap: 100, Signer: "gca"}))
				r.devs = append(r.devs, 4)
				return nil
			},
			func() error { r.report(4, 3301, 48); return nil },
			func() error { return r.restart(3201 + 2016 + 2016 + 900) }, // two catch-up rotations
			func() error { r.report(4, r.Now()-3, 49); return nil },
			func() error { return r.restart(r.Now() + 4000) },
			func() error { r.fill(6); return nil },
			// the clock is behind the persisted window offset at start-up (set back by the operator, dead RTC battery)
			func() error { return r.restart(100) },
			func() error { r.report(1, 98, 51); return nil },
			func() error { return r.restart(3201 + 2016 + 2016 + 900 + 4000 + 50) },
		}
		for _, op := range ops {
			if err := op(); err != nil {
				return err
			}
			if err := rs(); err != nil {
				return err
			}
			r.queries(false)
		}
	}
	// a week rotates while the server has no equipment yet; later weeks hold data; restarts
	if c.part("extra") || c.part("everyrestart") {
		s.WithDisk = true
		if err := begin("rotate/emptyweek", 1000, 0); err != nil {
			return err
		}
		if err := r.tick(3300); err != nil { // week 0 is archived without any device
			return err
		}
		r.QueryStats("0", 0, false)
		if err := s.device(7, "d7", 100); err != nil {
			return err
		}
		r.devs = []uint32{7}
		r.report(7, 3290, 55)
		r.report(7, 3299, 56)
		if err := r.restart(r.Now()); err != nil {
			return err
		}
		if err := r.tick(2016 + 3201 + 150); err != nil { // week 2016 is archived with the device
			return err
		}
		r.report(7, r.Now()-2, 57)
		for k := 0; k < 2; k++ {
			if err := r.restart(r.Now()); err != nil {
				return err
			}
			r.queries(false)
		}
		// the newest week is an empty one as well: ban the only device, rotate, restart
		ban(7)
		if err := r.tick(4032 + 3201 + 150); err != nil {
			return err
		}
		if err := r.restart(r.Now()); err != nil {
			return err
		}
		r.queries(false)
	}
	// late arrivals: on fresh servers, reports reach the file out of timeslot order across the week boundary; then
	// the window rotates and the server restarts before the new first week is archived (files of several sizes)
	if c.part("extra") {
		s.WithDisk = true
		orders := [][]uint32{{2017, 2020, 2010, 2025}, {2030, 2011, 2040, 2012, 2050}, {2016, 2015, 2017, 2014, 2018, 2013},
			{2100, 2000, 2101, 2001, 2102, 2002, 2103}, {2020, 2021, 2022, 1990, 1991, 1992, 1993, 1994, 2023}}
		for i, ord := range orders {
			if err := begin(fmt.Sprintf("rotate/latearrival/%d", i), 2400, 1); err != nil {
				return err
			}
			for k, ts := range ord {
				r.report(1, ts, uint64(400+10*k))
			}
			if err := r.tick(3201 + uint32(i)); err != nil {
				return err
			}
			r.QueryStats("2016", 2016, false)
			if err := r.restart(r.Now()); err != nil {
				return err
			}
			r.QueryStats("2016", 2016, false)
			r.QueryStats("0", 0, false)
			if err := r.tick(2016 + 3201 + uint32(i)); err != nil {
				return err
			}
			r.QueryStats("2016", 2016, false)
		}
	}
	// dense week: the parameter negates about 2% of the eligible slots of the
	// reply, so an archived week with many slots makes any write-through into
	// the archive visible
	// cadence: the start-up catch-up stops below 4000 slots of lag, above the rotation trigger: the rotation thread
	// takes over at once. A server restarted with such a lag and closed immediately has polled (and rotated).
	if c.part("cadence") {
		s.WithDisk = true
		for i, lag := range []uint32{3700, 3201, 3999, 3300} {
			if err := begin(fmt.Sprintf("rotate/cadence/%d", i), 500, 1); err != nil {
				return err
			}
			r.report(1, 490, 33)
			r.Close()
			r.Tick(lag)
			if err := r.Start(); err != nil {
				return err
			}
			r.Close()
			if err := r.Start(); err != nil {
				return err
			}
			r.QueryStats("0", 0, false)
			r.QueryStats("2016", 2016, false)
		}
	}
	if c.part("dense") {
		s.WithDisk = false
		if err := begin("rotate/dense", 432, 1); err != nil {
			return err
		}
		nd := 300
		if c.tier == "thorough" {
			nd = 800
		}
		for i := 0; i < nd; i++ {
			r.report(1, uint32(i), uint64(24+i%100))
		}
		if err := r.tick(3201); err != nil {
			return err
		}
		for i := 0; i < 4; i++ {
			r.QueryStats("0", 0, false)
			r.QueryStats("0", 0, true)
		}
		r.QueryStats("0", 0, false)
		r.QueryStats("2016", 2016, true)
		r.QueryStats("2016", 2016, false)
		s.WithDisk = true
	}
	// random histories
	n := 3
	if c.tier == "thorough" {
		n = 24
	}
	if !c.part("random") {
		n = 0
	}
	for h := 0; h < n; h++ {
		if err := begin(fmt.Sprintf("rotate/random/%d", h), uint32(300+c.rng.Intn(800)), 2+c.rng.Intn(2)); err != nil {
			return err
		}
		steps := 14 + c.rng.Intn(10)
		for i := 0; i < steps; i++ {
			switch k := c.rng.Intn(12); {
			case k < 4:
				r.fill(1 + c.rng.Intn(6))
			case k < 6:
				if err := r.tick(r.Now() + uint32(c.rng.Intn(700))); err != nil {
					return err
				}
			case k < 7:
				if err := r.tick(r.Now() + uint32(1500+c.rng.Intn(2500))); err != nil {
					return err
				}
			case k < 9:
				r.queries(c.rng.Intn(2) == 0)
			case k < 10:
				if len(r.devs) > 1 {
					ban(r.devs[c.rng.Intn(len(r.devs))])
				}
			case k < 11:
				if err := r.restart(r.Now() + uint32(c.rng.Intn(3)*2100)); err != nil {
					return err
				}
			default:
				if err := r.restart(r.Now() + uint32(4000+c.rng.Intn(9000))); err != nil {
					return err
				}
			}
		}
		r.queries(true)
	}
	s.Close()
	c.summary["reports"] = r.nrep
	c.summary["queries"] = r.nq
	c.summary["events"] = t.Events
	c.summary["counts"] = t.Counts
	c.summary["samples"] = t.Sample
	return t.Close()
}
