package main

import (
	"fmt"
	"strings"
	"time"

	"github.com/glowlabs-org/gca-backend/client"
	"github.com/glowlabs-org/gca-backend/glow"
	"verifharness/hx"
)

// Family "syncparse" (C10): for many server states the TCP sync reply is
// fetched from the real server (decoded with the reference decoder and
// compared with the server model), parsed by the real client, and then
// replayed to the client in tampered forms.

func init() { families["syncparse"] = runSyncParse }

func runSyncParse(c *ctx) error {
	t, err := hx.NewTrace(c.out)
	if err != nil {
		return err
	}
	tp, err := hx.NewTrace(c.out + ".parse")
	if err != nil {
		return err
	}
	s := newScn(c, t)
	s.Quiet["ImpactList"] = true
	rng := c.rng
	gate := s.NewGate("rot:before-lock")
	if err := s.fresh("syncparse/states", 400); err != nil {
		return err
	}
	for i := uint32(1); i <= 3; i++ {
		if err := s.device(i, fmt.Sprintf("d%d", i), 1000); err != nil {
			return err
		}
	}
	fake, err := hx.NewFakeTCP()
	if err != nil {
		return err
	}
	defer fake.Close()
	dir := c.root + "/bare"
	cl := client.VerifNewBareClient(dir)
	cl.VerifSetIdentity(s.KR.Pub("d1"), s.KR.Priv("d1"), 1)
	cl2 := client.VerifNewBareClient(dir)
	cl2.VerifSetIdentity(s.KR.Pub("d2"), s.KR.Priv("d2"), 2)
	ctx1 := hx.J{"server": "srv", "gca": "gca", "dev": "d1"}
	ctx2 := hx.J{"server": "srv", "gca": "gca", "dev": "d2"}
	ngenuine, ntamper := 0, 0

	// fetch from the real server, record, and let the client parse the genuine bytes
	fetch := func(id uint32, cli *client.Client, ctx hx.J) []byte {
		body, refused, err := s.SyncFetch(id)
		if err != nil {
			t.Emit(hx.J{"a": "DriverNote", "note": "sync fetch failed: " + err.Error()})
			return nil
		}
		s.EmitSyncResp(id, body, refused)
		ngenuine++
		if refused {
			fake.Set("zero", nil, -1)
			var perr error
			p := catchPanic(func() { _, _, _, _, _, perr = cli.VerifServerSync(fake.AsServer(), s.KR.Pub("srv"), s.KR.Pub("gca")) })
			tp.Emit(hx.J{"a": "ParseRefused", "res": hx.J{"ok": perr == nil && p == "", "panic": p}})
			return nil
		}
		fake.Set("reply", body, -1)
		s.ParseVia(tp, cli, fake.AsServer(), body, ctx, "genuine")
		return body
	}
	rogue := func(r hx.RawReply) []byte { // signed by the contacted server's real key
		r.Sig = s.SR.Sign("srv", hx.RefReplyBody(r))
		return hx.RefReplyBytes(r)
	}
	tamper := func(body []byte, cli *client.Client, ctx hx.J, allBits bool) {
		try := func(b []byte, prefix int, cls string) {
			fake.Set("reply", b, prefix)
			shown := b
			if prefix >= 0 && prefix < len(b) {
				shown = b[:prefix]
			}
			if prefix > len(b) {
				// announced more than sent: the client cannot read a full reply
				fake.Set("short", append(b, b...), prefix)
				shown = nil
			}
			if shown == nil {
				var perr error
				p := catchPanic(func() { _, _, _, _, _, perr = cli.VerifServerSync(fake.AsServer(), s.KR.Pub("srv"), s.KR.Pub("gca")) })
				tp.Emit(hx.J{"a": "ParseRefused", "cls": cls, "res": hx.J{"ok": perr == nil && p == "", "panic": p}})
			} else {
				s.ParseVia(tp, cli, fake.AsServer(), shown, ctx, cls)
			}
			ntamper++
		}
		nbits := len(body) * 8
		for bit := 0; bit < nbits; bit++ {
			if !allBits && rng.Intn(40) != 0 && bit > 64 && bit < nbits-64 {
				continue
			}
			b := append([]byte(nil), body...)
			b[bit/8] ^= 1 << (bit % 8)
			try(b, -1, "bitflip")
		}
		for _, n := range []int{0, 1, 63, 64, 71, 72, 73, 100, 135, 136, 540, 575, 576, 577, 640, 711, 712, len(body) - 65, len(body) - 1} {
			if n >= 0 && n < len(body) {
				try(body, n, "truncated")
			}
		}
		for _, extra := range []int{1, 64, 200} {
			b := append(append([]byte(nil), body...), make([]byte, extra)...)
			rng.Read(b[len(body):])
			try(b, -1, "extended")
		}
		try(body, len(body)+50, "announced-longer")
		for _, k := range []string{"x1", "gca", "d1", "temp"} {
			b := append([]byte(nil), body[:len(body)-64]...)
			sig := s.SR.Sign(k, b)
			try(append(b, sig[:]...), -1, "resigned-"+k)
		}
		r, _, ok := hx.RefReplyDecode(body)
		if !ok {
			return
		}
		now := uint64(time.Now().Unix())
		try(rogue(r), -1, "rogue-same-content")
		for _, dt := range []int64{-25 * 3600, 25 * 3600, -24*3600 - 5, 24*3600 + 5, -23 * 3600, 23 * 3600} {
			r2 := r
			r2.Time = uint64(int64(now) + dt)
			try(rogue(r2), -1, "rogue-time")
		}
		{
			r2 := r
			r2.Time = 0
			try(rogue(r2), -1, "rogue-time-zero")
			r2.Time = ^uint64(0)
			try(rogue(r2), -1, "rogue-time-max")
		}
		{
			r2 := r
			r2.DeviceKey = s.KR.Pub("d3")
			try(rogue(r2), -1, "rogue-foreign-device")
		}
		mkSrv := func(key, signer string, banned bool) hx.RawServer {
			rs := hx.RawServer{PublicKey: s.KR.Gen(key), Banned: banned, Location: "10.1.1.1", HttpPort: 1, TcpPort: 2, UdpPort: 3}
			if signer != "" {
				rs.Sig = s.SR.Sign(signer, hx.RefServerSigningBytes(rs))
			}
			return rs
		}
		if r.NewGCA == [32]byte{} {
			for _, signer := range []string{"", "x1", "srv", "gca2", "gca"} {
				r2 := r
				r2.Servers = append(append([]hx.RawServer(nil), r.Servers...), mkSrv("extra", signer, signer == "srv"))
				try(rogue(r2), -1, "rogue-extra-server-"+signer)
			}
			// the same server key twice in one list: a genuine entry and a forged one (other flags / fields, no valid signature)
			for _, forgedFirst := range []bool{false, true} {
				for _, signer := range []string{"", "x1", "srv"} {
					gen := mkSrv("dup", "gca", false)
					forged := mkSrv("dup", signer, true)
					forged.Location = "6.6.6.6"
					if signer != "" {
						forged.Sig = s.SR.Sign(signer, hx.RefServerSigningBytes(forged))
					}
					r2 := r
					if forgedFirst {
						r2.Servers = append(append([]hx.RawServer(nil), r.Servers...), forged, gen)
					} else {
						r2.Servers = append(append([]hx.RawServer(nil), r.Servers...), gen, forged)
					}
					try(rogue(r2), -1, "rogue-duplicate-key")
				}
			}
			// a migration order: outer signature by the current GCA / others, inner by the new GCA / others
			for _, outer := range []string{"gca", "gca2", "srv", ""} {
				for _, inner := range []string{"gca2", "gca", ""} {
					r2 := r
					r2.NewGCA = s.KR.Pub("gca2")
					r2.NewID = 99
					r2.Servers = []hx.RawServer{mkSrv("n1", "gca2", false), mkSrv("n2", inner, false)}
					if outer != "" {
						r2.MigSig = s.SR.Sign(outer, hx.RefReplyMigrationSigningBytes(r2))
					}
					try(rogue(r2), -1, "rogue-migration-"+outer+"-"+inner)
				}
			}
			{ // a migration signed for another device's key, replayed to this one
				r2 := r
				r2.NewGCA = s.KR.Pub("gca2")
				r2.NewID = 99
				r3 := r2
				r3.DeviceKey = s.KR.Pub("d3")
				r2.MigSig = s.SR.Sign("gca", hx.RefReplyMigrationSigningBytes(r3))
				try(rogue(r2), -1, "rogue-migration-other-device")
			}
		}
		// short replies correctly signed by the contacted (rogue) server, fresh timestamp
		for _, n := range []int{72, 73, 100, 136, 200, 540, 575, 576, 600, 700, 711} {
			b := make([]byte, n-72)
			rng.Read(b)
			copy(b, body) // plausible leading fields
			var tb [8]byte
			for i := 0; i < 8; i++ {
				tb[i] = byte(now >> (8 * i))
			}
			b = append(b, tb[:]...)
			sig := s.SR.Sign("srv", b)
			try(append(b, sig[:]...), -1, "rogue-short")
		}
		// garbage in the server list region (a partial entry)
		{
			b := append([]byte(nil), body[:len(body)-136]...)
			b = append(b, make([]byte, 40)...)
			b = append(b, body[len(body)-136:len(body)-64]...)
			sig := s.SR.Sign("srv", b)
			try(append(b, sig[:]...), -1, "rogue-partial-entry")
		}
	}

	// --- server states
	fetch(1, cl, ctx1) // empty window, no servers
	fetch(99, cl, ctx1)
	for _, ts := range []uint32{0, 1, 7, 8, 9, 15, 16, 431, 432, 500, 832} {
		s.Deliver(s.ReportBytes(1, ts, 50+uint64(ts), "d1", 0))
	}
	s.Deliver(s.ReportBytes(1, 8, 999, "d1", 0)) // equivocation: a banned record still sets its bit
	s.Deliver(s.ReportBytes(2, 3, 60, "d2", 0))
	b1 := fetch(1, cl, ctx1)
	if b1 != nil {
		tamper(b1, cl, ctx1, true)
	}
	fetch(2, cl2, ctx2)
	// window end: the rotation thread held, clock ahead
	gate.Arm()
	s.Tick(3650)
	if gate.WaitReached(3*time.Second) == nil {
		return fmt.Errorf("rotation thread did not reach the gate")
	}
	for _, ts := range []uint32{4031, 4030, 4024, 4023, 3999, 3218} {
		s.Deliver(s.ReportBytes(1, ts, 70, "d1", 0))
	}
	fetch(1, cl, ctx1)
	gate.Release()
	s.waitOffset(2016)
	fetch(1, cl, ctx1)
	// authorized servers with locations of length 0..255, banned flags
	locs := []string{"", "a", "127.0.0.1", strings.Repeat("x", 254), strings.Repeat("y", 255)}
	for i, loc := range locs {
		as := s.BuildServer(hx.ServerSpec{Key: fmt.Sprintf("as%d", i), Banned: i == 2, Loc: loc, Ports: [3]uint16{uint16(i), 65535, 1}, Signer: "gca"})
		s.AuthorizeServer(as)
		b := fetch(1, cl, ctx1)
		if b != nil && (i == 0 || i == len(locs)-1 || c.tier == "thorough") {
			tamper(b, cl, ctx1, false)
		}
	}
	s.AuthorizeServer(s.BuildServer(hx.ServerSpec{Key: "as0", Banned: true, Loc: "", Ports: [3]uint16{0, 65535, 1}, Signer: "gca"}))
	fetch(1, cl, ctx1)
	// a ban order that names the server with another location and other ports than its authorization did: what the
	// reply then carries for that server is still an entry the GCA signed
	s.AuthorizeServer(s.BuildServer(hx.ServerSpec{Key: "as1", Banned: true, Loc: "", Ports: [3]uint16{9, 9, 9}, Signer: "gca"}))
	fetch(1, cl, ctx1)
	s.AuthorizeServer(s.BuildServer(hx.ServerSpec{Key: "as3", Banned: true, Loc: "gone.example", Ports: [3]uint16{3, 65535, 1}, Signer: "gca"}))
	fetch(1, cl, ctx1)
	// migration orders with 0..k new servers
	for k := 0; k <= 3; k++ {
		var ns []hx.ServerSpec
		for j := 0; j < k; j++ {
			ns = append(ns, hx.ServerSpec{Key: fmt.Sprintf("m%d", j), Loc: strings.Repeat("z", j*100), Ports: [3]uint16{7, 8, 9}, Signer: "gca2"})
		}
		s.Migrate(s.BuildMigration("d2", "gca2", uint32(40+k), ns, "gca"))
		b := fetch(2, cl2, ctx2)
		if b != nil && (k == 1 || c.tier == "thorough") {
			tamper(b, cl2, ctx2, false)
		}
		fetch(1, cl, ctx1) // other devices are not affected
	}
	// a banned device gets a refusal
	s.Authorize(s.BuildAuth(hx.AuthSpec{ID: 3, Key: "d3", Cap: 5, Signer: "gca"}))
	fetch(3, cl, ctx1)
	s.Close()
	_ = glow.PublicKey{}
	c.summary["genuine_replies"] = ngenuine
	c.summary["tampered_replies"] = ntamper
	c.summary["events"] = t.Events + tp.Events
	c.summary["counts"] = tp.Counts
	c.summary["samples"] = append(t.Sample[:min(3, len(t.Sample))], tp.Sample[:min(5, len(tp.Sample))]...)
	tp.Close()
	return t.Close()
}
