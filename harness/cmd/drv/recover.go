package main

import (
	"crypto/sha256"
	"encoding/hex"
	"fmt"
	"net"
	"os"
	"path/filepath"
	"sync"
	"time"

	"github.com/glowlabs-org/gca-backend/client"
	"github.com/glowlabs-org/gca-backend/glow"
	"verifharness/hx"
)

// Family "recover" (C08, C09): the real client sends through a UDP relay
// that drops, duplicates and reorders; sync rounds fail against dead
// endpoints before a fault-free round against the real server; then the
// server must hold every reading it can still accept.

func init() { families["recover"] = runRecover }

type relay struct {
	conn *net.UDPConn
	port int
	mu   sync.Mutex
	q    [][]byte
}

func newRelay() (*relay, error) {
	c, err := net.ListenUDP("udp", &net.UDPAddr{IP: net.ParseIP("127.0.0.1")})
	if err != nil {
		return nil, err
	}
	r := &relay{conn: c, port: c.LocalAddr().(*net.UDPAddr).Port}
	go func() {
		buf := make([]byte, 4096)
		for {
			n, _, err := c.ReadFromUDP(buf)
			if err != nil {
				return
			}
			r.mu.Lock()
			r.q = append(r.q, append([]byte(nil), buf[:n]...))
			r.mu.Unlock()
		}
	}()
	return r, nil
}

func (r *relay) take(n int) [][]byte {
	deadline := time.Now().Add(3 * time.Second)
	for {
		r.mu.Lock()
		if len(r.q) >= n || time.Now().After(deadline) {
			out := r.q
			r.q = nil
			r.mu.Unlock()
			return out
		}
		r.mu.Unlock()
		time.Sleep(2 * time.Millisecond)
	}
}

func dg(b []byte) string { h := sha256.Sum256(b); return hex.EncodeToString(h[:8]) }

func runRecover(c *ctx) error {
	t, err := hx.NewTrace(c.out)
	if err != nil {
		return err
	}
	ts, err := hx.NewTrace(c.out + ".sys")
	if err != nil {
		return err
	}
	s := newScn(c, t)
	s.Quiet["ImpactList"] = true
	s.WithDisk = true
	rng := c.rng
	G := glow.VerifGenesis()
	nscn := 3
	if c.tier == "thorough" {
		nscn = 16
	}
	unfit := c.part("unfit") && c.only == "unfit"
	for sc := 0; sc < nscn; sc++ {
		name := fmt.Sprintf("recover/%d", sc)
		if unfit {
			name = fmt.Sprintf("recover/unfit/%d", sc)
		}
		t0 := uint32(600 + rng.Intn(600))
		// every third scenario: a device installed after the server's window has moved on (its history begins inside the
		// current window, whose start is not 0)
		young := sc%3 == 1
		if young {
			t0 = uint32(3400 + rng.Intn(200))
		}
		if err := s.fresh(name, t0); err != nil {
			return err
		}
		if young {
			s.waitOffset(2016)
		}
		ts.Scenario(name)
		devName := fmt.Sprintf("cl%d", sc)
		devID := uint32(7 + sc)
		s.KR.Gen(devName)
		if err := s.device(devID, devName, 8000000); err != nil {
			return err
		}
		rl, err := newRelay()
		if err != nil {
			return err
		}
		_, tcpPort, udpPort := s.Srv.Ports()
		servers := map[glow.PublicKey]client.GCAServer{
			s.KR.Pub("srv"): {Location: "127.0.0.1", TcpPort: tcpPort, UdpPort: uint16(rl.port), HttpPort: 1},
		}
		// dead endpoints: sync attempts against them fail
		dead := []string{}
		for i := 0; i < rng.Intn(3); i++ {
			k := fmt.Sprintf("dead%d", i)
			f, _ := hx.NewFakeTCP()
			f.Set([]string{"refuse", "reset", "zero"}[rng.Intn(3)], nil, -1)
			defer f.Close()
			servers[s.KR.Gen(k)] = client.GCAServer{Location: "127.0.0.1", TcpPort: f.Port, UdpPort: uint16(rl.port), HttpPort: 1}
			dead = append(dead, k)
		}
		origin := t0 - 500
		if young {
			origin = t0 - 40
		}
		cli, err := hx.NewCliEnv(s.Abs, ts, c.root, devName, devID, origin, servers)
		if err != nil {
			return err
		}
		nsent := 0
		cli.Install()
		cli.Extra = func(cl *client.Client, ev string, args []interface{}) bool {
			if ev == "Send" {
				raw := args[0].([]byte)
				nsent++
				tsv := uint32(raw[4]) | uint32(raw[5])<<8 | uint32(raw[6])<<16 | uint32(raw[7])<<24
				var val uint64
				for i := 0; i < 8; i++ {
					val |= uint64(raw[8+i]) << (8 * i)
				}
				// the device's own signature: registered after one check with the verifier
				var sig glow.Signature
				copy(sig[:], raw[16:])
				idv := uint32(raw[0]) | uint32(raw[1])<<8 | uint32(raw[2])<<16 | uint32(raw[3])<<24
				if msg := hx.RefReportSigningBytes(idv, tsv, val); glow.Verify(s.KR.Pub(devName), msg, sig) {
					s.SR.Register(sig, devName, msg)
				}
				ts.Emit(hx.J{"a": "Send", "dg": dg(raw), "d": hx.J{"ts": hx.Clamp30(uint64(tsv)), "val": hx.EValOf(val)}})
				return true
			}
			return ev == "SyncBegin" || ev == "SyncPick" || ev == "SyncApply"
		}
		if err := cli.Start(); err != nil {
			return err
		}
		held := [][]byte{}
		originLost := false // the first datagram of the origin slot is always lost (young devices: the slot is still acceptable at the end)
		forward := func(b []byte) { s.SendUDP(b) }
		pump := func(lossy bool) {
			want := nsent
			nsent = 0
			for _, b := range rl.take(want) {
				op := "deliver"
				if lossy {
					op = []string{"drop", "drop", "deliver", "deliver", "dup", "hold"}[rng.Intn(6)]
					// the datagram of the device's very first slot (the origin of its history file) is lost the
					// first time it is sent: only a retransmission can bring it to the server
					if !originLost && len(b) >= 8 && (uint32(b[4])|uint32(b[5])<<8|uint32(b[6])<<16|uint32(b[7])<<24) == origin {
						op, originLost = "drop", true
					}
				}
				ts.Emit(hx.J{"a": "Net", "op": op, "dg": dg(b)})
				switch op {
				case "deliver":
					forward(b)
				case "dup":
					forward(b)
					forward(b)
				case "hold":
					held = append(held, b)
				}
			}
			if !lossy || rng.Intn(3) == 0 { // late, reordered delivery of what was held
				rng.Shuffle(len(held), func(i, j int) { held[i], held[j] = held[j], held[i] })
				for _, b := range held {
					ts.Emit(hx.J{"a": "Net", "op": "deliver-late", "dg": dg(b)})
					forward(b)
				}
				held = nil
			}
		}
		readings := []int64{30, 77, -30, -5000, 1 << 20, 5, 0, 23, 24, 99999, -(1 << 25)}
		if unfit {
			readings = append(readings, 3000000000, 1<<32+5, 1<<31, -(1 << 33))
		}
		// a reading for the origin slot itself, the first one the history file can hold
		lines := []string{fmt.Sprintf("%d,%d", G+int64(origin)*300+7, 700)}
		latest := origin
		addRows := func(n int) {
			now := s.Now()
			for i := 0; i < n; i++ {
				slot := now - uint32(rng.Intn(300))
				lines = append(lines, fmt.Sprintf("%d,%d", G+int64(slot)*300+7, readings[rng.Intn(len(readings))]))
				if slot > latest {
					latest = slot
				}
			}
			cli.WriteEnergy(lines)
		}
		steps := 4 + rng.Intn(4)
		for st := 0; st < steps; st++ {
			addRows(3 + rng.Intn(8))
			if !cli.Iterate() {
				return fmt.Errorf("report loop stuck")
			}
			pump(true)
			switch rng.Intn(6) {
			case 0: // a sync round in the middle (may hit dead endpoints, may succeed)
				cli.C.VerifSyncRound(latest)
				pump(true)
			case 1: // clock moves on (no rotation yet)
				s.Tick(s.Now() + uint32(rng.Intn(60)))
			case 2: // server restart
				if rng.Intn(2) == 0 {
					s.Restart()
					_, tcp2, udp2 := s.Srv.Ports()
					_ = udp2
					if tcp2 != tcpPort {
						// the server came back on other ports: point the client's files at them
						cli.Close()
						tcpPort = tcp2
						servers[s.KR.Pub("srv")] = client.GCAServer{Location: "127.0.0.1", TcpPort: tcp2, UdpPort: uint16(rl.port), HttpPort: 1}
						raw, _ := client.SerializeGCAServerMap(servers)
						os.WriteFile(filepath.Join(cli.Dir, client.GCAServerMapFile), raw, 0644)
						if err := cli.Start(); err != nil {
							return err
						}
					}
				}
			case 3: // client restart
				cli.Close()
				if err := cli.Start(); err != nil {
					return err
				}
			}
		}
		_ = udpPort
		if sc%3 == 2 { // a week rotation before the final round
			s.Tick(3201 + uint32(rng.Intn(50)))
			s.waitOffset(2016)
		}
		// eight consecutive slots filling one byte of the server's bitfield are delivered, the two
		// slots after them are lost
		{
			off := s.Srv.VerifSnapshot().Offset
			now := s.Now()
			base := off + ((now-off-40)/8)*8
			for i := uint32(0); i < 10; i++ {
				lines = append(lines, fmt.Sprintf("%d,%d", G+int64(base+i)*300+5, 100+int64(i)))
				if base+i > latest {
					latest = base + i
				}
			}
			cli.WriteEnergy(lines)
			if !cli.Iterate() {
				return fmt.Errorf("report loop stuck")
			}
			want := nsent
			nsent = 0
			for _, b := range rl.take(want) {
				tsv := uint32(b[4]) | uint32(b[5])<<8 | uint32(b[6])<<16 | uint32(b[7])<<24
				if tsv >= base && tsv < base+8 {
					ts.Emit(hx.J{"a": "Net", "op": "deliver", "dg": dg(b)})
					forward(b)
				} else {
					ts.Emit(hx.J{"a": "Net", "op": "drop", "dg": dg(b)})
				}
			}
		}
		// a last batch of readings (all value classes, the newest slot included) is lost entirely
		{
			now := s.Now()
			for i, rd := range []int64{-30, 77, 5, -(1 << 25), 99999} {
				slot := now - uint32(4-i)
				lines = append(lines, fmt.Sprintf("%d,%d", G+int64(slot)*300+11, rd))
				if slot > latest {
					latest = slot
				}
			}
			// a row the meter was still writing: its energy column does not parse (reported as 3) ...
			half := len(lines)
			lines = append(lines, fmt.Sprintf("%d,%s", G+int64(now-6)*300+11, "12x"))
			cli.WriteEnergy(lines)
			if !cli.Iterate() {
				return fmt.Errorf("report loop stuck")
			}
			want := nsent
			nsent = 0
			for _, b := range rl.take(want) {
				ts.Emit(hx.J{"a": "Net", "op": "drop", "dg": dg(b)})
			}
			// ... and is complete on the next pass: what was sent for the slot stays what the history holds
			lines[half] = fmt.Sprintf("%d,%d", G+int64(now-6)*300+11, 700)
			cli.WriteEnergy(lines)
			if !cli.Iterate() {
				return fmt.Errorf("report loop stuck")
			}
			want = nsent
			nsent = 0
			for _, b := range rl.take(want) {
				ts.Emit(hx.J{"a": "Net", "op": "drop", "dg": dg(b)})
			}
		}
		// the final fault-free round: dead endpoints may be picked first; repeat until one round succeeds
		ok := false
		for try := 0; try < 6 && !ok; try++ {
			ok = cli.C.VerifSyncRound(latest)
		}
		pump(false)
		if body, refused, err := s.SyncFetch(devID); err == nil && !refused {
			d := s.DescribeReply(body)
			ts.Emit(hx.J{"a": "SrvView", "offset": d["offset"], "bits": d["bits"], "now": int(s.Now())})
		}
		ts.Emit(hx.J{"a": "CliHist", "hist": cli.Hist()})
		ts.Emit(hx.J{"a": "Quiesce", "roundok": ok})
		cli.Close()
		rl.conn.Close()
		_ = dead
	}
	s.Close()
	c.summary["events"] = t.Events + ts.Events
	c.summary["counts"] = ts.Counts
	c.summary["samples"] = ts.Sample
	ts.Close()
	return t.Close()
}
