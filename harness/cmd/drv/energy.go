package main

import (
	"fmt"
	"math"
	"os"
	"path/filepath"
	"strconv"
	"strings"

	"github.com/glowlabs-org/gca-backend/client"
	"github.com/glowlabs-org/gca-backend/glow"
	"verifharness/hx"
)

// Family "energy" (C16): abstract energy files (rows of classes) are
// rendered to CSV text in several concrete spellings, parsed by the real
// staticReadEnergyFile, and the resulting records are logged; likewise the
// calibration file.

func init() { families["energy"] = runEnergy }

type eRow struct {
	nf   int    // 0 = unparsable for the CSV reader
	tsc  string // header garbage pre ok
	slot int
	rdc  string // garbage num special
	n, k int
	text string // rendering
	s    string // class bigint: the integer reading as a decimal string
}

func (r eRow) abs() hx.J {
	return hx.J{"nf": r.nf, "ts": hx.J{"c": r.tsc, "slot": r.slot}, "rd": hx.J{"c": r.rdc, "n": r.n, "k": r.k, "s": r.s}}
}

func runEnergy(c *ctx) error {
	t, err := hx.NewTrace(c.out)
	if err != nil {
		return err
	}
	dir := filepath.Join(c.root, "cli")
	os.MkdirAll(dir, 0755)
	cl := client.VerifNewBareClient(dir)
	G := glow.VerifGenesis()
	rng := c.rng

	mkTs := func(cls string) (string, int) {
		switch cls {
		case "header":
			return "timestamp", 0
		case "garbage":
			return []string{"abc", "12x", "", "1.5", "0x10", " 17"}[rng.Intn(6)], 0
		case "pre":
			return fmt.Sprint(G - 1 - int64(rng.Intn(100000))), 0
		}
		slot := rng.Intn(5000)
		if rng.Intn(8) == 0 {
			slot = 14000000 + rng.Intn(1000) // far in the future
		}
		return fmt.Sprint(G + int64(slot)*300 + int64([]int{0, 150, 299}[rng.Intn(3)])), slot
	}
	mkRd := func(cls string) (string, int, int) {
		switch cls {
		case "garbage":
			return []string{"abc", "", " 45", "4;5", "--5", "1e999", "-1e999"}[rng.Intn(7)], 0, 0
		case "special":
			return []string{"NaN", "Inf", "-Inf", "1e300", "-1e300", "9e18", "-9.3e18"}[rng.Intn(7)], 0, 0
		}
		// dyadic rational n / 2^k, rendered in several spellings
		k := rng.Intn(4)
		var n int
		switch rng.Intn(6) {
		case 0:
			n = []int{23, 24, 25, -23, -24, -25}[rng.Intn(6)] << k // around the |r| < 24 boundary
			if rng.Intn(2) == 0 {
				n += []int{-1, 1}[rng.Intn(2)]
			}
		case 1:
			n = 0
		case 2:
			// a multiple of one of the calibration dividers: the scaled value is a whole number exactly
			// (a calibration ratio such as 1000/3 is not a float64; the product must be formed first)
			d := []int{3, 49, 7, 1100, 147}[rng.Intn(5)]
			n = d * (rng.Intn(2*(400000/d)) - 400000/d) // |mult * n| stays below 2^31 for the model checker
			k = 0
		default:
			n = rng.Intn(400000) - 200000
		}
		v := float64(n) / float64(int(1)<<k)
		var s string
		switch rng.Intn(4) {
		case 0:
			s = fmt.Sprintf("%g", v)
		case 1:
			s = strconv.FormatFloat(v, 'e', -1, 64) // exact: the default %e precision would round the reading
		case 2:
			s = fmt.Sprintf("%.6f", v)
		default:
			s = fmt.Sprintf("%+v", v)
		}
		return s, n, k
	}
	mkRow := func() eRow {
		var r eRow
		r.tsc = []string{"header", "garbage", "pre", "ok", "ok", "ok", "ok"}[rng.Intn(7)]
		r.rdc = []string{"garbage", "special", "num", "num", "num", "num"}[rng.Intn(6)]
		ts, slot := mkTs(r.tsc)
		rd, n, k := mkRd(r.rdc)
		r.slot, r.n, r.k = slot, n, k
		switch p := rng.Intn(20); {
		case p == 0:
			r.nf, r.text = 1, ts
		case p == 1:
			r.nf, r.text = 3, ts+","+rd+",extra"
		case p == 2:
			r.nf, r.text = 0, ts+",a\"b" // bare quote: the CSV reader gives up
		case p == 3:
			r.nf, r.text = 2, "\""+ts+"\",\""+rd+"\"" // quoted fields
		default:
			r.nf, r.text = 2, ts+","+rd
		}
		if r.tsc == "header" && r.nf == 2 && rng.Intn(2) == 0 {
			r.text = "timestamp,energy (mWh)"
			r.rdc, r.n, r.k = "garbage", 0, 0
		}
		if r.nf == 1 && strings.TrimSpace(r.text) == "" {
			r.text = "x" // a blank line is skipped by the reader, it is no row at all
			r.tsc = "garbage"
		}
		return r
	}
	cals := [][2]int{{1000, 1000}, {-2000, 1000}, {1, 0}, {3, 7}, {500, 1000}, {-1, 1}, {1000, 3}, {1, 49}, {-2000, 7}, {1000, 1100}, {10, 3}, {-1000, 147}}
	nfiles := 1500
	if c.tier == "thorough" {
		nfiles = 30000
	}
	read := func(rows []eRow, crlf bool, cal [2]int) {
		nl := "\n"
		if crlf {
			nl = "\r\n"
		}
		var sb strings.Builder
		for _, r := range rows {
			sb.WriteString(r.text + nl)
		}
		os.WriteFile(filepath.Join(dir, client.EnergyFile), []byte(sb.String()), 0644)
		cl.VerifSetCalibration(float64(cal[0]), float64(cal[1]))
		var recs []client.EnergyRecord
		var rerr error
		p := catchPanic(func() { recs, rerr = cl.VerifReadEnergyFile() })
		abs := []hx.J{}
		for _, r := range rows {
			abs = append(abs, r.abs())
		}
		out := []hx.J{}
		for _, r := range recs {
			v := int64(r.Energy)
			val := hx.J{"c": "big", "n": 0, "s": fmt.Sprint(v)}
			if v > -(1<<30) && v < 1<<30 {
				val = hx.J{"c": "v", "n": int(v)}
			}
			out = append(out, hx.J{"slot": hx.Clamp30(uint64(r.Timeslot)), "val": val})
		}
		t.Emit(hx.J{"a": "Read", "rows": abs, "mult": cal[0], "div": cal[1], "recs": out, "err": rerr != nil, "panic": p, "text": sb.String()})
	}
	// integers of many digits under the calibration 1000/1000: the record carries the full 64-bit value
	{
		var rows []eRow
		for i, v := range []int64{3000000000, 4294967297, -2147483649, 2147483648, -4294967296, 1 << 40, -(1 << 45), 1<<53 - 1} {
			rows = append(rows, eRow{nf: 2, tsc: "ok", slot: 10 + i, rdc: "bigint", s: fmt.Sprint(v), text: fmt.Sprintf("%d,%d", G+int64(10+i)*300+3, v)})
		}
		read(rows, false, [2]int{1000, 1000})
		read(rows[:3], true, [2]int{-1, -1})
	}
	// directed: the first row decides the field count
	one := func(tsc, text string, slot int) eRow {
		return eRow{nf: 1, tsc: tsc, slot: slot, rdc: "garbage", text: text}
	}
	read([]eRow{one("garbage", "x", 0), one("ok", fmt.Sprint(G+300), 1), one("ok", fmt.Sprint(G+600), 2)}, false, cals[0])
	read([]eRow{one("ok", fmt.Sprint(G+300), 1)}, false, cals[0])
	read([]eRow{}, false, cals[0])
	for i := 0; i < nfiles; i++ {
		n := rng.Intn(5)
		if i%50 == 0 {
			n = 30 + rng.Intn(50)
		}
		var rows []eRow
		for j := 0; j < n; j++ {
			rows = append(rows, mkRow())
		}
		read(rows, rng.Intn(4) == 0, cals[rng.Intn(len(cals))])
	}
	// a missing file is an error, not a crash
	os.Remove(filepath.Join(dir, client.EnergyFile))
	{
		var rerr error
		p := catchPanic(func() { _, rerr = cl.VerifReadEnergyFile() })
		t.Emit(hx.J{"a": "ReadMissing", "err": rerr != nil, "panic": p})
	}
	// calibration files
	consts := client.VerifConsts()
	calFile := func(lines []hx.J, texts []string, absent bool, sep string) {
		p := filepath.Join(dir, client.CTSettingsFile)
		os.Remove(p)
		file := []hx.J{}
		if !absent {
			os.WriteFile(p, []byte(strings.Join(texts, sep)), 0644)
			file = append(file, lines...)
		}
		c2 := client.VerifNewBareClient(dir)
		var m, d float64
		var cerr error
		pn := catchPanic(func() { m, d, cerr = c2.VerifReadCTSettings() })
		j := hx.J{"a": "Cal", "absent": absent, "file": file, "ok": cerr == nil, "panic": pn, "mult": 0, "div": 0,
			"dm": int(consts["EnergyMultiplierDefault"]), "dd": int(consts["EnergyDividerDefault"])}
		if cerr == nil && m == math.Trunc(m) && d == math.Trunc(d) && math.Abs(m) < 1e9 && math.Abs(d) < 1e9 {
			j["mult"], j["div"] = int(m), int(d)
		} else if cerr == nil {
			j["mult"], j["div"] = -999999, -999999
		}
		t.Emit(j)
	}
	num := func(v int) (hx.J, string) { return hx.J{"c": "num", "v": v}, fmt.Sprint(v) }
	gar := func(s string) (hx.J, string) { return hx.J{"c": "garbage", "v": 0}, s }
	calFile(nil, nil, true, "\n")
	type ln struct {
		j hx.J
		s string
	}
	mk := func(f func() (hx.J, string)) ln { j, s := f(); return ln{j, s} }
	pool := []ln{mk(func() (hx.J, string) { return num(1000) }), mk(func() (hx.J, string) { return num(-2000) }), mk(func() (hx.J, string) { return num(0) }),
		mk(func() (hx.J, string) { return num(7) }), mk(func() (hx.J, string) { return num(16777217) }), mk(func() (hx.J, string) { return num(-123456789) }), mk(func() (hx.J, string) { return gar("abc") }), mk(func() (hx.J, string) { return gar(" 5") }),
		mk(func() (hx.J, string) { return gar("1,5") }), mk(func() (hx.J, string) { return gar("") })}
	for _, a := range pool {
		calFile([]hx.J{a.j}, []string{a.s}, false, "\n")
		for _, b := range pool {
			for _, sep := range []string{"\n", "\r\n"} {
				calFile([]hx.J{a.j, b.j}, []string{a.s, b.s}, false, sep)
				calFile([]hx.J{a.j, b.j, pool[0].j}, []string{a.s, b.s, pool[0].s}, false, sep)
			}
		}
	}
	calFile([]hx.J{}, []string{}, false, "\n")
	c.summary["events"] = t.Events
	c.summary["counts"] = t.Counts
	c.summary["samples"] = t.Sample
	return t.Close()
}
