package main

import (
	"fmt"
	"os"
	"sort"
	"strings"
	"time"

	"github.com/glowlabs-org/gca-backend/glow"
	"verifharness/hx"
)

// Family "eventlog" (C18): sequences of Printf / ExpireLogs / DumpLogEntries
// on real EventLoggers of several configurations. The time each call worked
// with is taken from the hook inside ExpireLogs; times are rank-encoded
// (order preserving) so that nanosecond clocks fit the model's integers.

func init() { families["eventlog"] = runEventLog }

type elEvent struct {
	a     string
	line  string
	t     int64 // ns
	cut   int64
	lines map[string][]int64
	size  int
	order []string
	panic string
}

func chars(s string) []int {
	// byte-wise (the limits are byte limits): 'a' and 'b' are 1 and 2, any other byte is its value
	out := []int{}
	for i := 0; i < len(s); i++ {
		if s[i] == 'a' || s[i] == 'b' {
			out = append(out, int(s[i]-'a')+1)
		} else {
			out = append(out, int(s[i]))
		}
	}
	return out
}

func runEventLog(c *ctx) error {
	type cfg struct {
		expiry       time.Duration
		max, maxLine int
	}
	cfgs := []cfg{{time.Hour, 8, 3}, {time.Hour, 1, 3}, {60 * time.Microsecond, 6, 3}, {time.Hour, 6, 2}, {200 * time.Microsecond, 20, 4}}
	nops := 400
	if c.tier == "thorough" {
		nops = 4000
		cfgs = append(cfgs, cfg{time.Hour, 12, 5}, cfg{30 * time.Microsecond, 9, 3}, cfg{time.Hour, 0, 3})
	}
	base := time.Now()
	var files []string
	total := 0
	var samples []hx.J
	for ci, cf := range cfgs {
		l := glow.NewEventLogger(cf.expiry, cf.max, cf.maxLine)
		var lastNow time.Time
		glow.VerifExpireHook = func(_ *glow.EventLogger, now time.Time) { lastNow = now }
		snap := func(ev *elEvent) {
			m, sz := l.VerifState()
			ev.lines = map[string][]int64{}
			for k, ts := range m {
				for _, x := range ts {
					ev.lines[k] = append(ev.lines[k], x.Sub(base).Nanoseconds())
				}
			}
			ev.size = sz
		}
		var evs []*elEvent
		mkline := func() string {
			n := c.rng.Intn(2*cf.maxLine + 1)
			var sb strings.Builder
			// mostly ASCII; sometimes multi-byte characters and stray continuation bytes, which may straddle the cut
			multi := c.rng.Intn(3) == 0
			for sb.Len() < n {
				if multi && c.rng.Intn(2) == 0 {
					sb.WriteString([]string{"\u00e9", "\u20ac", "\U0001F600", "\x80", "\xbf\x80\x80"}[c.rng.Intn(5)])
				} else {
					sb.WriteByte("ab"[c.rng.Intn(2)])
				}
			}
			return sb.String()
		}
		var pool []string
		for i := 0; i < nops; i++ {
			if c.rng.Intn(3) == 0 {
				time.Sleep(time.Duration(c.rng.Intn(80)) * time.Microsecond)
			}
			ev := &elEvent{}
			switch k := c.rng.Intn(10); {
			case k < 6:
				line := mkline()
				if len(pool) > 0 && c.rng.Intn(3) == 0 {
					line = pool[c.rng.Intn(len(pool))]
				}
				pool = append(pool, line)
				ev.a, ev.line = "Printf", line
				ev.panic = catchPanic(func() { l.Printf("%s", line) })
				ev.t = lastNow.Sub(base).Nanoseconds()
				ev.cut = ev.t - cf.expiry.Nanoseconds()
			case k < 8:
				// an explicit expiry at a cut time before / at / after a stored time
				m, _ := l.VerifState()
				var all []time.Time
				for _, ts := range m {
					all = append(all, ts...)
				}
				T := time.Now()
				if len(all) > 0 {
					T = all[c.rng.Intn(len(all))].Add(cf.expiry).Add(time.Duration(c.rng.Intn(3)-1) * time.Nanosecond)
				}
				if c.rng.Intn(6) == 0 {
					T = base.Add(-time.Hour)
				}
				ev.a = "Expire"
				ev.panic = catchPanic(func() { l.ExpireLogs(T) })
				ev.t = T.Sub(base).Nanoseconds()
				ev.cut = ev.t - cf.expiry.Nanoseconds()
			default:
				ev.a = "Dump"
				var order []string
				ev.panic = catchPanic(func() { _, order = l.DumpLogEntries() })
				ev.order = order
				ev.t = lastNow.Sub(base).Nanoseconds()
				ev.cut = ev.t - cf.expiry.Nanoseconds()
			}
			snap(ev)
			evs = append(evs, ev)
			if ev.panic != "" {
				break
			}
		}
		// rank encoding of every time value
		set := map[int64]bool{}
		for _, ev := range evs {
			set[ev.t], set[ev.cut] = true, true
			for _, ts := range ev.lines {
				for _, x := range ts {
					set[x] = true
				}
			}
		}
		var all []int64
		for x := range set {
			all = append(all, x)
		}
		sort.Slice(all, func(i, j int) bool { return all[i] < all[j] })
		rank := map[int64]int{}
		for i, x := range all {
			rank[x] = i
		}
		path := fmt.Sprintf("%s.%d", c.out, ci)
		t, err := hx.NewTrace(path)
		if err != nil {
			return err
		}
		t.Emit(hx.J{"a": "Cfg", "max": cf.max, "maxline": cf.maxLine, "expiry_ns": int(cf.expiry.Nanoseconds() % (1 << 30))})
		for _, ev := range evs {
			keys := []string{}
			for k := range ev.lines {
				keys = append(keys, k)
			}
			sort.Strings(keys)
			ls := []interface{}{}
			for _, k := range keys {
				ts := []int{}
				for _, x := range ev.lines[k] {
					ts = append(ts, rank[x])
				}
				ls = append(ls, []interface{}{chars(k), ts})
			}
			j := hx.J{"a": ev.a, "t": rank[ev.t], "cut": rank[ev.cut], "panic": ev.panic, "post": hx.J{"lines": ls, "size": ev.size}}
			if ev.a == "Printf" {
				j["line"] = chars(ev.line)
			}
			if ev.a == "Dump" {
				o := []interface{}{}
				for _, k := range ev.order {
					o = append(o, chars(k))
				}
				j["order"] = o
			}
			t.Emit(j)
		}
		total += t.Events
		samples = append(samples, t.Sample...)
		if err := t.Close(); err != nil {
			return err
		}
		files = append(files, path)
	}
	glow.VerifExpireHook = nil
	os.WriteFile(c.out, []byte{}, 0644)
	c.summary["files"] = files
	c.summary["configs"] = len(cfgs)
	c.summary["events"] = total
	if len(samples) > 8 {
		samples = samples[:8]
	}
	c.summary["samples"] = samples
	return nil
}

func catchPanic(f func()) (p string) {
	defer func() {
		if r := recover(); r != nil {
			p = fmt.Sprint(r)
		}
	}()
	f()
	return ""
}
