package main

import (
	"fmt"
	"math/rand"
	"os"
	"path/filepath"
	"sync"

	"github.com/glowlabs-org/gca-backend/client"
	"github.com/glowlabs-org/gca-backend/glow"
	"verifharness/hx"
)

// Family "history" (C09): (a) the history store at its interface, on a grid
// of timeslots (before the origin, at it, far beyond the file end) and
// values; (b) the report loop single-stepped over evolving energy files with
// restarts in between.

func init() { families["history"] = runHistory }

func limbs32(v uint32) []int { return []int{int(v >> 16), int(v & 0xffff)} }

func runHistory(c *ctx) error {
	rng := c.rng
	// ---- (a) store level
	if c.part("store") {
		t, err := hx.NewTrace(c.out + ".store")
		if err != nil {
			return err
		}
		for round, origin := range []uint32{1000, 0, 1 << 31} {
			dir := filepath.Join(c.root, fmt.Sprintf("store%d", round))
			os.MkdirAll(dir, 0755)
			var b4 [4]byte
			b4[0], b4[1], b4[2], b4[3] = byte(origin), byte(origin>>8), byte(origin>>16), byte(origin>>24)
			os.WriteFile(filepath.Join(dir, client.HistoryFile), b4[:], 0644)
			cl := client.VerifNewBareClient(dir)
			if err := cl.VerifLoadHistory(); err != nil {
				return err
			}
			t.Emit(hx.J{"a": "Open", "origin": limbs32(origin)})
			cands := []int64{int64(origin) - 1000, int64(origin) - 1, int64(origin), int64(origin) + 1, int64(origin) + 2, int64(origin) + 77,
				int64(origin) + 100000, int64(origin) + 1<<30 - 1, int64(origin) + 1<<30, int64(origin) + 1<<30 + 1, int64(origin) + 1<<30 + 77,
				int64(origin) + 1<<31, 0, 1<<32 - 1}
			var grid []uint32
			for _, x := range cands {
				if x >= 0 && x < 1<<32 {
					grid = append(grid, uint32(x))
				}
			}
			vals := []uint32{0, 1, 2, 7, 7, 1<<31 + 5, 1<<32 - 1, 40000}
			n := 60
			if c.tier == "thorough" {
				n = 400
			}
			for i := 0; i < n; i++ {
				ts := grid[rng.Intn(len(grid))]
				v := vals[rng.Intn(len(vals))]
				var serr error
				if p := catchPanic(func() { serr = cl.VerifSaveReading(ts, v) }); p != "" {
					t.Emit(hx.J{"a": "Panic", "what": p})
					break
				}
				t.Emit(hx.J{"a": "Save", "k": limbs32(ts), "v": int(int32(v)), "err": serr != nil})
				for _, k := range grid {
					got, lerr := cl.VerifLoadReading(k)
					t.Emit(hx.J{"a": "Load", "k": limbs32(k), "v": int(int32(got)), "err": lerr != nil})
				}
			}
			cl.VerifStop()
			os.RemoveAll(dir)
		}
		// the store used by two goroutines at once, as the report loop and a sync round do
		{
			dir := filepath.Join(c.root, "storeconc")
			os.MkdirAll(dir, 0755)
			os.WriteFile(filepath.Join(dir, client.HistoryFile), []byte{100, 0, 0, 0}, 0644)
			cl := client.VerifNewBareClient(dir)
			if err := cl.VerifLoadHistory(); err != nil {
				return err
			}
			t.Emit(hx.J{"a": "Open", "origin": limbs32(100)})
			const nslots = 500
			f := func(slot uint32) uint32 { return 1000 + 7*slot }
			type ev struct {
				a    string
				slot uint32
				v    uint32
				err  bool
				pan  bool
			}
			var wev, rev []ev
			stop := make(chan struct{})
			var wg sync.WaitGroup
			wg.Add(2)
			go func() { // the report loop: saves every row of the energy file on every pass
				defer wg.Done()
				for pass := 0; pass < 6; pass++ {
					for s := uint32(100); s < 100+nslots; s++ {
						var e1, e2 error
						p := catchPanic(func() { e1 = cl.VerifSaveReading(s, f(s)) })
						wev = append(wev, ev{"ConcSaveOwn", s, f(s), e1 != nil, p != ""})
						if s%5 == 0 {
							p = catchPanic(func() { e2 = cl.VerifSaveReading(s, f(s)+1) })
							wev = append(wev, ev{"ConcSaveOther", s, f(s) + 1, e2 != nil, p != ""})
						}
					}
				}
				close(stop)
			}()
			go func() { // a sync round: loads what the server is missing
				defer wg.Done()
				r2 := rand.New(rand.NewSource(c.seed + 99))
				for {
					select {
					case <-stop:
						return
					default:
					}
					s := uint32(100 + r2.Intn(nslots))
					var v uint32
					var e error
					p := catchPanic(func() { v, e = cl.VerifLoadReading(s) })
					if len(rev) < 40000 {
						rev = append(rev, ev{"ConcLoad", s, v, e != nil, p != ""})
					}
				}
			}()
			wg.Wait()
			emit := func(x ev) {
				t.Emit(hx.J{"a": x.a, "k": limbs32(x.slot), "v": int(int32(x.v)), "f": int(int32(f(x.slot))), "err": x.err, "panic": x.pan})
			}
			// only events that are wrong, plus a sample of the others, go to the trace (the rule is per event)
			for _, list := range [][]ev{wev, rev} {
				for i, x := range list {
					bad := x.pan || (x.a == "ConcLoad" && (x.err || (x.v != 0 && x.v != f(x.slot)))) || (x.a == "ConcSaveOwn" && x.err) || (x.a == "ConcSaveOther" && !x.err)
					if bad || i%40 == 0 {
						emit(x)
					}
				}
			}
			for s := uint32(100); s < 100+nslots; s++ {
				v, e := cl.VerifLoadReading(s)
				emit(ev{"ConcFinal", s, v, e != nil, false})
			}
			c.summary["conc_store_ops"] = len(wev) + len(rev)
			cl.VerifStop()
			os.RemoveAll(dir)
		}
		c.summary["store_events"] = t.Events
		c.summary["samples"] = t.Sample
		t.Close()
	}
	// ---- (b) loop level
	if !c.part("loop") {
		os.WriteFile(c.out, nil, 0644)
		return nil
	}
	t, err := hx.NewTrace(c.out)
	if err != nil {
		return err
	}
	kr := hx.NewKeyRing()
	kr.Gen("gca")
	abs := hx.Abs{KR: kr, SR: hx.NewSigReg(kr)}
	G := glow.VerifGenesis()
	nscn := 3
	iters := 12
	if c.tier == "thorough" {
		nscn, iters = 12, 40
	}
	type rec struct {
		slot int
		r    int64 // raw reading in the file (calibration 1000/1000)
	}
	// a row whose energy column does not parse (the meter caught mid-write): reported and stored as 3
	const unparse = int64(-1 << 62)
	energyOf := func(r int64) uint64 {
		if r == unparse {
			return 3
		}
		if r > -24 && r < 24 {
			return 2
		}
		return uint64(r)
	}
	energyText := func(r int64) string {
		if r == unparse {
			return []string{"12x", "abc", "1.2.3", "--4"}[rng.Intn(4)]
		}
		return fmt.Sprint(r)
	}
	for sc := 0; sc < nscn; sc++ {
		t.Scenario(fmt.Sprintf("history/loop/%d", sc))
		origin := uint32(100 + rng.Intn(50))
		e, err := hx.NewCliEnv(abs, t, c.root, fmt.Sprintf("cl%d", sc), uint32(7+sc), origin, nil)
		if err != nil {
			return err
		}
		e.Install()
		var file []rec
		// (a reading whose low 32 bits are zero, such as -(1<<33), is sent but leaves an empty history
		// cell: that manifestation of the 32-bit history format has its own scenario below)
		readings := []int64{0, 5, 23, 24, 30, 31, -30, -5000, 77777, 1 << 20, 1<<31 - 1 - 3, 3000000000, 1<<32 + 5, unparse, unparse}
		edit := func() {
			switch k := rng.Intn(10); {
			case k < 4 || len(file) == 0: // append
				file = append(file, rec{int(origin) - 3 + rng.Intn(40), readings[rng.Intn(len(readings))]})
				if rng.Intn(3) == 0 {
					// the same (possibly new) slot once more in the same edit, with another reading: the second row
					// cannot be stored and must not be sent either
					file = append(file, rec{file[len(file)-1].slot, readings[rng.Intn(len(readings))]})
				}
			case k < 6: // rewrite one row with another value
				file[rng.Intn(len(file))].r = readings[rng.Intn(len(readings))]
			case k < 7: // duplicate a slot with another value
				x := file[rng.Intn(len(file))]
				file = append(file, rec{x.slot, readings[rng.Intn(len(readings))]})
			case k < 8: // reorder
				rng.Shuffle(len(file), func(i, j int) { file[i], file[j] = file[j], file[i] })
			case k < 9: // drop a row
				i := rng.Intn(len(file))
				file = append(file[:i], file[i+1:]...)
			default: // start over
				file = nil
			}
			var lines []string
			recs := []hx.J{}
			for _, x := range file {
				lines = append(lines, fmt.Sprintf("%d,%s", G+int64(x.slot)*300+int64(rng.Intn(300)), energyText(x.r)))
				recs = append(recs, hx.J{"slot": x.slot, "val": hx.EValOf(energyOf(x.r))})
			}
			if rng.Intn(5) == 0 {
				lines = append(lines, "garbage,12") // skipped by the parser (C16)
			}
			e.WriteEnergy(lines)
			t.Emit(hx.J{"a": "EditFile", "recs": recs})
		}
		edit()
		if err := e.Start(); err != nil {
			return err
		}
		for i := 0; i < iters; i++ {
			if rng.Intn(3) > 0 {
				edit()
			}
			if !e.Iterate() {
				return fmt.Errorf("report loop did not complete an iteration")
			}
			if rng.Intn(6) == 0 {
				e.Close()
				if rng.Intn(2) == 0 {
					edit()
				}
				if err := e.Start(); err != nil {
					return err
				}
			}
		}
		e.Close()
		if e.Sink != nil {
			e.Sink.Close()
		}
	}
	// a reading outside 32 signed bits whose low 32 bits are zero, later replaced by another reading
	{
		t.Scenario("history/unfitzero/0")
		origin := uint32(100)
		e, err := hx.NewCliEnv(abs, t, c.root, "clz", 99, origin, nil)
		if err != nil {
			return err
		}
		e.Install()
		write := func(rows [][2]int64) {
			var lines []string
			recs := []hx.J{}
			for _, x := range rows {
				lines = append(lines, fmt.Sprintf("%d,%d", G+x[0]*300+7, x[1]))
				recs = append(recs, hx.J{"slot": int(x[0]), "val": hx.EValOf(energyOf(x[1]))})
			}
			e.WriteEnergy(lines)
			t.Emit(hx.J{"a": "EditFile", "recs": recs})
		}
		write([][2]int64{{110, 50}})
		if err := e.Start(); err != nil {
			return err
		}
		for _, rows := range [][][2]int64{{{110, 50}, {120, -(1 << 33)}}, {{110, 50}, {120, -30}}, {{110, 50}, {120, -30}, {130, 60}}} {
			write(rows)
			if !e.Iterate() {
				return fmt.Errorf("report loop did not complete an iteration")
			}
		}
		e.Close()
		if e.Sink != nil {
			e.Sink.Close()
		}
	}
	c.summary["events"] = t.Events
	c.summary["counts"] = t.Counts
	if _, ok := c.summary["samples"]; !ok {
		c.summary["samples"] = t.Sample
	}
	return t.Close()
}
