package main

import (
	"bytes"
	"fmt"
	"os"
	"runtime"
	"sort"
	"strconv"
	"sync"
	"time"

	"github.com/glowlabs-org/gca-backend/glow"
	"verifharness/hx"
)

// Family "ratelimit" (C19): 1..64 goroutines hammer real limiters over a grid
// of (limit, window). The hook records, under the limiter's mutex, the time
// the decision was based on, the decision and the queue length; the caller
// records its own clock before and after the call.

func init() { families["ratelimit"] = runRateLimit }

func gid() int {
	var buf [64]byte
	n := runtime.Stack(buf[:], false)
	f := bytes.Fields(buf[:n])
	id, _ := strconv.Atoi(string(f[1]))
	return id
}

type rlCall struct {
	t, cut, before, after int64
	ok, ret               bool
	q                     int
}

func runRateLimit(c *ctx) error {
	limits := []int{1, 2, 3, 5}
	windows := []time.Duration{300 * time.Microsecond, 2 * time.Millisecond, 10 * time.Millisecond}
	workers := []int{1, 4, 16, 64}
	if c.tier == "thorough" {
		limits = append(limits, 10, 17)
		windows = append(windows, 100*time.Microsecond, 40*time.Millisecond)
	}
	base := time.Now()
	var files []string
	total := 0
	var samples []hx.J
	for li, limit := range limits {
		path := fmt.Sprintf("%s.%d", c.out, li)
		t, err := hx.NewTrace(path)
		if err != nil {
			return err
		}
		for _, win := range windows {
			for _, nw := range workers {
				for pattern := 0; pattern < 3; pattern++ {
					r := glow.NewRateLimiter(limit, win)
					var mu sync.Mutex
					var calls []*rlCall
					byG := map[int]*rlCall{}
					glow.VerifRateHook = func(rl *glow.RateLimiter, now time.Time, ok bool, q int) {
						if rl != r {
							return
						}
						cl := &rlCall{t: now.Sub(base).Nanoseconds(), ok: ok, q: q}
						cl.cut = cl.t - win.Nanoseconds()
						mu.Lock()
						calls = append(calls, cl) // order = order of the limiter's mutex
						byG[gid()] = cl
						mu.Unlock()
					}
					var wg sync.WaitGroup
					per := 6 + 40/nw
					for w := 0; w < nw; w++ {
						wg.Add(1)
						go func(w int) {
							defer wg.Done()
							g := gid()
							for i := 0; i < per; i++ {
								switch pattern {
								case 1: // bursts
									if i%4 == 0 {
										time.Sleep(win + win/4)
									}
								case 2: // paced just below / above the window per admitted slot
									d := win / time.Duration(limit)
									if w%2 == 0 {
										d = d * 9 / 10
									} else {
										d = d * 11 / 10
									}
									time.Sleep(d)
								}
								before := time.Now()
								ret := r.Allow()
								after := time.Now()
								mu.Lock()
								cl := byG[g]
								mu.Unlock()
								cl.before, cl.after, cl.ret = before.Sub(base).Nanoseconds(), after.Sub(base).Nanoseconds(), ret
							}
						}(w)
					}
					wg.Wait()
					glow.VerifRateHook = nil
					set := map[int64]bool{}
					for _, cl := range calls {
						set[cl.t], set[cl.cut], set[cl.before], set[cl.after] = true, true, true, true
					}
					var all []int64
					for x := range set {
						all = append(all, x)
					}
					sort.Slice(all, func(i, j int) bool { return all[i] < all[j] })
					rank := map[int64]int{}
					for i, x := range all {
						rank[x] = i + 1
					}
					t.Emit(hx.J{"a": "Cfg", "limit": limit, "window_ns": int(win.Nanoseconds()), "workers": nw, "pattern": pattern})
					for _, cl := range calls {
						t.Emit(hx.J{"a": "Allow", "t": rank[cl.t], "cut": rank[cl.cut], "before": rank[cl.before], "after": rank[cl.after],
							"ok": cl.ok, "q": cl.q, "ret": cl.ret})
					}
				}
			}
		}
		total += t.Events
		samples = append(samples, t.Sample...)
		if err := t.Close(); err != nil {
			return err
		}
		files = append(files, path)
	}
	os.WriteFile(c.out, []byte{}, 0644)
	c.summary["files"] = files
	c.summary["events"] = total
	if len(samples) > 8 {
		samples = samples[:8]
	}
	c.summary["samples"] = samples
	return nil
}
