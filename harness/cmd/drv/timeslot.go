package main

import (
	"fmt"
	"math/big"
	"os"
	"path/filepath"
	"strings"

	"github.com/glowlabs-org/gca-backend/glow"
	"verifharness/hx"
)

// Family "timeslot" (C20): the real conversion functions sampled at every
// slot boundary by stride and randomly inside, and the report handler's
// acceptance decision at (now, timeslot) pairs at the uint32 extremes.

func init() { families["timeslot"] = runTimeslot }

func limbs(v uint32) []int { return []int{int(v >> 16), int(v & 0xffff)} }

func runTimeslot(c *ctx) error {
	t, err := hx.NewTrace(c.out)
	if err != nil {
		return err
	}
	G := glow.VerifGenesis()
	bigG := big.NewInt(G)
	sample := func(ut int64) {
		d := new(big.Int).Sub(big.NewInt(ut), bigG)
		q, r := new(big.Int), new(big.Int)
		q.DivMod(d, big.NewInt(300), r) // Euclidean: r >= 0
		slot, err := glow.UnixToTimeslot(ut)
		j := hx.J{"a": "U2T", "neg": d.Sign() < 0, "err": err != nil, "q": 0, "r": int(r.Int64()), "slot": int(slot), "bq": 0, "br": 0}
		if d.Sign() >= 0 {
			j["q"] = int(q.Int64())
		}
		if err == nil {
			back := glow.TimeslotToUnix(slot)
			bd := new(big.Int).Sub(big.NewInt(back), bigG)
			bq, br := new(big.Int), new(big.Int)
			bq.DivMod(bd, big.NewInt(300), br)
			j["bq"], j["br"] = int(bq.Int64()), int(br.Int64())
		}
		t.Emit(j)
	}
	const maxSlot = (1<<32 - 1) / 300
	stride := 9973
	nrand := 2000
	if c.tier == "thorough" {
		stride = 97
		nrand = 50000
	}
	for k := int64(0); k <= maxSlot; k += int64(stride) {
		for _, off := range []int64{0, 1, 299} {
			if k*300+off < 1<<32 {
				sample(G + k*300 + off)
			}
		}
	}
	for _, ut := range []int64{G - 1<<31, G - 301, G - 300, G - 1, G, G + 1, G + 299, G + 300, G + maxSlot*300, G + 1<<32 - 1, 0, 1} {
		sample(ut)
	}
	for i := 0; i < nrand; i++ {
		sample(G + c.rng.Int63n(1<<32))
		if i%10 == 0 {
			sample(G - 1 - c.rng.Int63n(1<<31))
		}
	}
	for i := 0; i < nrand/4; i++ {
		s := uint32(c.rng.Int63n(maxSlot + 1))
		back := glow.TimeslotToUnix(s)
		bd := new(big.Int).Sub(big.NewInt(back), bigG)
		bq, br := new(big.Int), new(big.Int)
		bq.DivMod(bd, big.NewInt(300), br)
		t.Emit(hx.J{"a": "T2U", "s": int(s), "bq": int(bq.Int64()), "br": int(br.Int64())})
	}
	for _, s := range []uint32{0, 1, maxSlot - 1, maxSlot} {
		back := glow.TimeslotToUnix(s)
		bd := new(big.Int).Sub(big.NewInt(back), bigG)
		bq, br := new(big.Int), new(big.Int)
		bq.DivMod(bd, big.NewInt(300), br)
		t.Emit(hx.J{"a": "T2U", "s": int(s), "bq": int(bq.Int64()), "br": int(br.Int64())})
	}

	// acceptance decisions of the real handler at the uint32 extremes,
	// classified from the server's own log
	tq, err := hx.NewTrace(filepath.Join(c.root, "quiet.ndjson"))
	if err != nil {
		return err
	}
	s := newScn(c, tq)
	for _, q := range []string{"ImpactSet", "ImpactList", "RotPoll", "RotGo", "Rotate", "RecvReport", "UDPRead"} {
		s.Quiet[q] = true
	}
	if err := s.fresh("timeslot/window", 1000); err != nil {
		return err
	}
	if err := s.device(1, "d1", 100); err != nil {
		return err
	}
	logPath := filepath.Join(s.Dir, "server.log")
	logLen := func() int64 {
		fi, err := os.Stat(logPath)
		if err != nil {
			return 0
		}
		return fi.Size()
	}
	const M = 1<<32 - 1
	nows := []uint32{0, 1, 431, 432, 433, 1000, 1<<31 - 1, 1 << 31, 1<<31 + 1, M - 433, M - 432, M - 431, M - 1, M}
	for _, now := range nows {
		glow.SetCurrentTimeslot(now)
		var tss []uint32
		for _, d := range []int64{-434, -433, -432, -431, -1, 0, 1, 431, 432, 433, 434} {
			v := int64(now) + d
			tss = append(tss, uint32(v)) // wraps on purpose: the wrapped value is a legitimate 32-bit timeslot
		}
		tss = append(tss, 0, 1, 432, 433, M, M-1, M-432, M-433, 1<<31, 1<<31-1)
		for _, ts := range tss {
			before := logLen()
			s.Deliver(s.ReportBytes(1, ts, 50, "d1", 0))
			b, _ := os.ReadFile(logPath)
			newLog := string(b[before:])
			rejected := strings.Contains(newLog, "out of bounds timeslot")
			other := strings.Contains(newLog, "decoding failed") || strings.Contains(newLog, "sentinel")
			t.Emit(hx.J{"a": "Win", "now": limbs(now), "ts": limbs(ts), "rejected": rejected, "other": other})
		}
	}
	glow.SetCurrentTimeslot(1000)
	s.Close()
	tq.Close()
	c.summary["events"] = t.Events
	c.summary["counts"] = t.Counts
	c.summary["samples"] = t.Sample
	c.summary["genesis_test_build"] = fmt.Sprint(G)
	return t.Close()
}
