package main

import (
	"fmt"
	"github.com/glowlabs-org/gca-backend/glow"
	"math"
	"net"
	"time"

	"verifharness/hx"
)

// Family "accept" (C01, C12): the mutation menu of datagrams of property C01
// at several (current timeslot, window offset) configurations, reached by the
// real start-up catch-up and real rotations; the rotation thread is held at a
// gate where the clock has to run ahead of the window.

func init() { families["accept"] = runAccept }

type acceptRun struct {
	*scn
	n     int
	flips int
}

// menu sends the datagrams of the quantifier at the current configuration.
// off is the window offset the server is known to have.
func (a *acceptRun) menu(off uint32, heavy bool) {
	c := a.c
	now := a.Now()
	send := func(b []byte, udp bool) {
		a.n++
		if udp {
			a.SendUDP(b)
		} else {
			a.Deliver(b)
		}
	}
	tss := []int64{int64(now) - 433, int64(now) - 432, int64(now) - 1, int64(now), int64(now) + 432, int64(now) + 433,
		int64(off) - 1, int64(off), int64(off) + 2015, int64(off) + 2016, int64(off) + 4031, int64(off) + 4032, int64(off) + 4033}
	slot := func(i int) uint32 { // a fresh acceptable slot near now
		return uint32(int64(now) - 200 + int64(i))
	}
	// 1. boundary timeslots x sentinel / ordinary power
	for _, ts := range tss {
		if ts < 0 || ts > math.MaxUint32 {
			continue
		}
		for _, v := range []uint64{0, 1, 2, 50} {
			send(a.ReportBytes(1, uint32(ts), v, "d1", 0), false)
		}
	}
	// 2. lengths 0..79 and 81..200 around a valid report (direct: exact
	//    length required; UDP: shorter dropped, longer cut to 80 bytes)
	base := a.ReportBytes(1, slot(1), 51, "d1", 0)
	for _, n := range []int{0, 1, 16, 79, 81, 100, 200} {
		b := make([]byte, n)
		copy(b, base)
		send(b, false)
		send(b, true)
	}
	// a valid report whose signature ends in a zero byte, sent one byte short over the socket: the
	// missing byte must not be made up by the receive buffer
	for v := uint64(1000); v < 9000; v++ {
		b := a.ReportBytes(1, slot(7), v, "d1", 0)
		if b[79] == 0 {
			send(b[:79], true)
			time.Sleep(5 * time.Millisecond)
			break
		}
	}
	if heavy {
		for n := 0; n <= 200; n++ {
			if n == 80 {
				continue
			}
			b := make([]byte, n)
			copy(b, a.ReportBytes(1, slot(2), 52, "d1", 0))
			for i := 80; i < n; i++ {
				b[i] = byte(c.rng.Intn(256))
			}
			send(b, n%2 == 0)
		}
	}
	// 3. unknown and banned devices, foreign signers
	send(a.ReportBytes(3, slot(3), 53, "d1", 0), false)  // unknown id, signed by an authorized key
	send(a.ReportBytes(2, slot(3), 53, "d2", 0), false)  // banned id, signed by its former key
	send(a.ReportBytes(77, slot(3), 53, "x1", 0), false) // unknown id, unknown key
	for _, k := range []string{"d4", "gca", "srv", "temp", "x1", ""} {
		send(a.ReportBytes(1, slot(4), 54, k, 0), false)
	}
	// signed by the right key over other content (field swaps)
	{
		id, ts, v := uint32(1), slot(5), uint64(55)
		sig := a.SR.Sign("d1", hx.RefReportSigningBytes(id, ts, v))
		send(hx.RefReportBytes(id, ts+1, v, sig), false)
		send(hx.RefReportBytes(id, ts, v+1, sig), false)
		send(hx.RefReportBytes(4, ts, v, sig), false)
		send(hx.RefReportBytes(ts, id, v, sig), false) // id and timeslot swapped
		// signed with another structure's prefix
		var a2 hx.RawAuth
		a2.ShortID = id
		sig2 := a.SR.Sign("d1", hx.RefAuthSigningBytes(a2))
		send(hx.RefReportBytes(id, ts, v, sig2), false)
	}
	// the other algebraic encoding (r, N-s) of a valid report's signature: a datagram nobody signed
	{
		b := a.ReportBytes(1, slot(8), 58, "d1", 0)
		var sg glow.Signature
		copy(sg[:], b[16:])
		m := hx.Malleate(sg)
		mb := append(append([]byte(nil), b[:16]...), m[:]...)
		send(mb, false)
		send(b, false)
		send(mb, true)
	}
	// 4. every single-bit flip of a valid report
	flipBase := a.ReportBytes(1, slot(6), 56, "d1", 0)
	for bit := 0; bit < 640; bit++ {
		if !heavy && bit%5 != int(c.seed)%5 && bit >= 128 {
			continue
		}
		b := append([]byte(nil), flipBase...)
		b[bit/8] ^= 1 << (bit % 8)
		send(b, false)
		a.flips++
	}
	// random multi-bit flips
	for i := 0; i < 40; i++ {
		b := append([]byte(nil), flipBase...)
		for k := 0; k < 2+c.rng.Intn(6); k++ {
			bit := c.rng.Intn(640)
			b[bit/8] ^= 1 << (bit % 8)
		}
		send(b, false)
	}
	// 5. random byte strings
	for i := 0; i < 40; i++ {
		b := make([]byte, c.rng.Intn(201))
		c.rng.Read(b)
		send(b, i%2 == 0)
	}
	// 6. finally the unmodified base reports are acceptable
	send(base, true)
	send(flipBase, false)
	send(a.ReportBytes(4, slot(7), 57, "d4", 0), true)
}

func runAccept(c *ctx) error {
	t, err := hx.NewTrace(c.out)
	if err != nil {
		return err
	}
	s := newScn(c, t)
	s.WithDisk = true
	s.Quiet["ImpactList"] = true
	a := &acceptRun{scn: s}
	heavy := c.tier == "thorough"
	gate := s.NewGate("rot:before-lock")
	cgate := s.NewGate("catchup:before-migrate")

	setup := func(name string, t0 uint32) error {
		if err := s.fresh(name, t0); err != nil {
			return err
		}
		for _, d := range []struct {
			id  uint32
			key string
		}{{1, "d1"}, {2, "d2"}, {4, "d4"}} {
			if err := s.device(d.id, d.key, 100); err != nil {
				return err
			}
		}
		// ban id 2 by a conflicting authorization
		s.Authorize(s.BuildAuth(hx.AuthSpec{ID: 2, Key: "d2", Cap: 999, Signer: "gca"}))
		return nil
	}

	// A: fresh server, clock inside the first week
	if err := setup("accept/A-fresh", 1000+uint32(c.rng.Intn(100))); err != nil {
		return err
	}
	a.menu(0, heavy)
	// B: the clock exactly at the rotation trigger (3200: no rotation)
	s.Tick(3200)
	time.Sleep(250 * time.Millisecond)
	a.menu(0, false)
	// C: the clock runs ahead of the window while the rotation thread is
	// held between its decision and its critical section
	gate.Arm()
	s.Tick(3650)
	if gate.WaitReached(3*time.Second) == nil {
		return fmt.Errorf("rotation thread did not reach the gate")
	}
	a.menu(0, false)
	// the impact collector stamps the current timeslot: let it run with the clock on the last
	// slot of the window and exactly one past it
	for _, tt := range []uint32{4031, 4032, 4033} {
		s.Tick(tt)
		time.Sleep(70 * time.Millisecond)
	}
	s.Tick(4033 + 400) // every slot up to the end of the window is acceptable now
	a.menu(0, false)
	gate.Release()
	// bursts on the real UDP socket: an authentic report immediately followed by forged copies that
	// carry its signature over other fields; every datagram is handled by its own goroutine
	a.bursts(2016-2016, heavy)
	// D: after the rotation
	if !s.waitOffset(2016) {
		return fmt.Errorf("rotation did not happen")
	}
	a.menu(2016, false)
	// E: the clock steps back to just after the new window start
	s.Tick(2016 + 100)
	a.menu(2016, false)
	// F: restart with the clock far ahead: start-up catch-up, the UDP
	// listener is live while the window still lags
	s.Close()
	s.Tick(2016 + 4100)
	cgate.Arm()
	startErr := make(chan error, 1)
	go func() { startErr <- s.Start() }()
	if cgate.WaitReached(5*time.Second) == nil {
		return fmt.Errorf("catch-up loop did not reach the gate")
	}
	a.menu(2016, false)
	cgate.Release()
	if err := <-startErr; err != nil {
		return fmt.Errorf("restart failed: %v", err)
	}
	a.menu(4032, false)
	// G: restart with the clock behind the persisted window offset
	s.Close()
	s.Tick(100)
	if err := s.Start(); err != nil {
		return fmt.Errorf("restart with the clock behind the offset failed: %v", err)
	}
	a.menu(4032, false)
	s.Close()

	if heavy {
		// more seeds of configuration A and C with other clocks
		for i := 0; i < 3; i++ {
			if err := setup(fmt.Sprintf("accept/G-%d", i), uint32(500+c.rng.Intn(2500))); err != nil {
				return err
			}
			a.menu(0, false)
			gate.Arm()
			s.Tick(uint32(3601 + c.rng.Intn(430)))
			if gate.WaitReached(3*time.Second) == nil {
				return fmt.Errorf("rotation thread did not reach the gate")
			}
			a.menu(0, false)
			gate.Release()
			if !s.waitOffset(2016) {
				return fmt.Errorf("rotation did not happen")
			}
			a.menu(2016, false)
			s.Close()
		}
	}
	c.summary["datagrams"] = a.n
	c.summary["bitflips"] = a.flips
	c.summary["events"] = t.Events
	c.summary["counts"] = t.Counts
	c.summary["samples"] = t.Sample
	return t.Close()
}

// waitOffset waits until the server's window offset has the given value.
func (s *scn) waitOffset(off uint32) bool {
	for i := 0; i < 100; i++ {
		if s.Srv != nil && s.Srv.VerifSnapshot().Offset == off {
			return true
		}
		time.Sleep(30 * time.Millisecond)
	}
	return false
}

// bursts sends, without waiting in between, a valid report and then forged datagrams reusing its
// signature; it then waits for the handlers of everything the socket delivered.
func (a *acceptRun) bursts(off uint32, heavy bool) {
	_, _, up := a.Srv.Ports()
	conn, err := net.Dial("udp", fmt.Sprintf("127.0.0.1:%d", up))
	if err != nil {
		return
	}
	defer conn.Close()
	rounds := 60
	if heavy {
		rounds = 400
	}
	now := a.Now()
	for r := 0; r < rounds; r++ {
		ts := uint32(int64(now) - 300 + int64(r%250))
		id, v := uint32(1), uint64(1000+r)
		valid := a.ReportBytes(id, ts, v, "d1", 0)
		var sig [64]byte
		copy(sig[:], valid[16:])
		before := a.T.Counts["RecvReport"]
		conn.Write(valid)
		// a short, varying pause: the forged copies should arrive while the first one is being verified
		for spin := 0; spin < (r%30)*400; spin++ {
			_ = spin
		}
		n := 1
		for k := 0; k < 9; k++ {
			forged := hx.RefReportBytes(id, ts+1+uint32(k), v+7, sig)
			if _, err := conn.Write(forged); err == nil {
				n++
			}
		}
		// wait for the handlers of what arrived (datagrams may be dropped by the socket: no failure)
		deadline := time.Now().Add(300 * time.Millisecond)
		for time.Now().Before(deadline) {
			a.T.Lock()
			got := a.T.Counts["RecvReport"] - before
			a.T.Unlock()
			if got >= n {
				break
			}
			time.Sleep(200 * time.Microsecond)
		}
		a.n += n
	}
	time.Sleep(50 * time.Millisecond)
}
