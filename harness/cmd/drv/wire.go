package main

import (
	"bytes"
	"encoding/binary"
	"encoding/json"
	"math"
	"strings"

	"github.com/glowlabs-org/gca-backend/client"
	"github.com/glowlabs-org/gca-backend/glow"
	"github.com/glowlabs-org/gca-backend/server"
	"verifharness/hx"
)

// Family "wire" (C15): the real Serialize / Deserialize / SigningBytes
// functions on boundary and random values; the field values are converted to
// little-endian byte sequences by the harness and TLC rebuilds the expected
// bytes from the layouts of Wire.tla.

func init() { families["wire"] = runWire }

func ints(b []byte) []int {
	out := make([]int, len(b))
	for i, x := range b {
		out[i] = int(x)
	}
	return out
}
func b32(v uint32) []byte { b := make([]byte, 4); binary.LittleEndian.PutUint32(b, v); return b }
func b64(v uint64) []byte { b := make([]byte, 8); binary.LittleEndian.PutUint64(b, v); return b }
func b16(v uint16) []byte { b := make([]byte, 2); binary.LittleEndian.PutUint16(b, v); return b }

func runWire(c *ctx) error {
	t, err := hx.NewTrace(c.out)
	if err != nil {
		return err
	}
	rng := c.rng
	n := 40
	if c.tier == "thorough" {
		n = 600
	}
	u32s := []uint32{0, 1, 255, 256, 65535, 65536, 1<<31 - 1, 1 << 31, 1<<32 - 1}
	u64s := []uint64{0, 1, 255, 1 << 32, 1<<63 - 1, 1 << 63, 1<<64 - 1}
	f64s := []float64{0, math.Copysign(0, -1), 1, -1, math.SmallestNonzeroFloat64, -math.SmallestNonzeroFloat64, math.MaxFloat64, 1e-310, 123.456}
	pick32 := func() uint32 {
		if rng.Intn(2) == 0 {
			return u32s[rng.Intn(len(u32s))]
		}
		return rng.Uint32()
	}
	pick64 := func() uint64 {
		if rng.Intn(2) == 0 {
			return u64s[rng.Intn(len(u64s))]
		}
		return rng.Uint64()
	}
	pickF := func() float64 {
		if rng.Intn(2) == 0 {
			return f64s[rng.Intn(len(f64s))]
		}
		for {
			f := math.Float64frombits(rng.Uint64())
			if !math.IsNaN(f) && !math.IsInf(f, 0) {
				return f
			}
		}
	}
	rb := func(n int) []byte { b := make([]byte, n); rng.Read(b); return b }
	fields := func(m map[string][]byte) hx.J {
		j := hx.J{}
		for k, v := range m {
			j[k] = ints(v)
		}
		return j
	}
	// the little-endian rule itself, on small numbers
	for _, v := range []int{0, 1, 255, 256, 258, 65535, 65536, 1<<24 + 5, 1<<30 - 1} {
		t.Emit(hx.J{"a": "Num", "v": v, "w": 4, "bytes": ints(b32(uint32(v)))})
		t.Emit(hx.J{"a": "Num", "v": v, "w": 8, "bytes": ints(b64(uint64(v)))})
		if v < 65536 {
			t.Emit(hx.J{"a": "Num", "v": v, "w": 2, "bytes": ints(b16(uint16(v)))})
		}
	}
	for i := 0; i < n; i++ {
		// report
		{
			r := glow.EquipmentReport{ShortID: pick32(), Timeslot: pick32(), PowerOutput: pick64()}
			copy(r.Signature[:], rb(64))
			f := map[string][]byte{"id": b32(r.ShortID), "ts": b32(r.Timeslot), "power": b64(r.PowerOutput), "sig": r.Signature[:]}
			t.Emit(hx.J{"a": "Enc", "typ": "report", "fields": fields(f), "ser": ints(r.Serialize()), "sb": ints(r.SigningBytes()),
				"sbdet": bytes.Equal(r.SigningBytes(), r.SigningBytes())})
			raw := r.Serialize()
			for _, ln := range []int{0, 1, 79, 80, 81, 160} {
				in := make([]byte, ln)
				copy(in, raw)
				d, derr := glow.DeserializeReport(in)
				df := map[string][]byte{"id": b32(d.ShortID), "ts": b32(d.Timeslot), "power": b64(d.PowerOutput), "sig": d.Signature[:]}
				t.Emit(hx.J{"a": "Dec", "typ": "report", "len": ln, "ok": derr == nil, "same": derr != nil || bytes.Equal(hx.RefReportBytes(d.ShortID, d.Timeslot, d.PowerOutput, d.Signature), in),
					"fields": fields(df)})
			}
		}
		// authorization (+ JSON transport)
		{
			a := glow.EquipmentAuthorization{ShortID: pick32(), Latitude: pickF(), Longitude: pickF(), Capacity: pick64(), Debt: pick64(),
				Expiration: pick32(), Initialization: pick32(), ProtocolFee: pick64()}
			copy(a.PublicKey[:], rb(32))
			copy(a.Signature[:], rb(64))
			fa := func(a glow.EquipmentAuthorization) map[string][]byte {
				return map[string][]byte{"id": b32(a.ShortID), "key": a.PublicKey[:], "lat": b64(math.Float64bits(a.Latitude)), "long": b64(math.Float64bits(a.Longitude)),
					"cap": b64(a.Capacity), "debt": b64(a.Debt), "exp": b32(a.Expiration), "init": b32(a.Initialization), "fee": b64(a.ProtocolFee), "sig": a.Signature[:]}
			}
			t.Emit(hx.J{"a": "Enc", "typ": "auth", "fields": fields(fa(a)), "ser": ints(a.Serialize()), "sb": ints(a.SigningBytes()),
				"sbdet": bytes.Equal(a.SigningBytes(), a.SigningBytes())})
			raw := a.Serialize()
			for _, ln := range []int{0, 147, 148, 149, 296} {
				in := make([]byte, ln)
				copy(in, raw)
				d, derr := glow.DeserializeEquipmentAuthorization(in)
				t.Emit(hx.J{"a": "Dec", "typ": "auth", "len": ln, "ok": derr == nil, "same": derr != nil || bytes.Equal(hx.RefAuthBytes(hx.ToRawAuth(d)), in), "fields": fields(fa(d))})
			}
			jb, _ := json.Marshal(a)
			var a2 glow.EquipmentAuthorization
			jerr := json.Unmarshal(jb, &a2)
			t.Emit(hx.J{"a": "Json", "same": jerr == nil && bytes.Equal(hx.RefAuthBytes(hx.ToRawAuth(a)), hx.RefAuthBytes(hx.ToRawAuth(a2)))})
		}
		// registration
		{
			gr := server.GCARegistration{}
			copy(gr.GCAKey[:], rb(32))
			copy(gr.Signature[:], rb(64))
			f := map[string][]byte{"key": gr.GCAKey[:], "sig": gr.Signature[:]}
			t.Emit(hx.J{"a": "Enc", "typ": "registration", "fields": fields(f), "ser": ints(append(append([]byte{}, gr.GCAKey[:]...), gr.Signature[:]...)),
				"sb": ints(gr.SigningBytes()), "sbdet": bytes.Equal(gr.SigningBytes(), gr.SigningBytes())})
		}
		// authorized server, location lengths 0..255
		mkServer := func() (server.AuthorizedServer, map[string][]byte) {
			ll := []int{0, 1, 9, 254, 255, rng.Intn(256)}[rng.Intn(6)]
			as := server.AuthorizedServer{Banned: rng.Intn(2) == 0, Location: strings.Repeat("x", ll), HttpPort: uint16(pick32()), TcpPort: uint16(pick32()), UdpPort: uint16(pick32())}
			copy(as.PublicKey[:], rb(32))
			copy(as.GCAAuthorization[:], rb(64))
			bn := []byte{0}
			if as.Banned {
				bn = []byte{1}
			}
			return as, map[string][]byte{"key": as.PublicKey[:], "banned": bn, "loclen": {byte(ll)}, "loc": []byte(as.Location), "http": b16(as.HttpPort), "tcp": b16(as.TcpPort), "udp": b16(as.UdpPort), "sig": as.GCAAuthorization[:]}
		}
		// a location longer than the one-byte length field can express: every byte of it is still covered by the signing bytes
		{
			ll := []int{256, 257, 300, 1000}[rng.Intn(4)]
			a1, _ := mkServer()
			a1.Location = strings.Repeat("q", ll)
			a2 := a1
			pos := 255 + rng.Intn(ll-255)
			a2.Location = a1.Location[:pos] + "r" + a1.Location[pos+1:]
			pub, priv := glow.GenerateKeyPair()
			sg := glow.Sign(a1.SigningBytes(), priv)
			t.Emit(hx.J{"a": "Tail", "len": ll, "pos": pos, "sbsame": bytes.Equal(a1.SigningBytes(), a2.SigningBytes()),
				"selfverifies": glow.Verify(pub, a1.SigningBytes(), sg), "crossverifies": glow.Verify(pub, a2.SigningBytes(), sg)})
		}
		as, fs := mkServer()
		t.Emit(hx.J{"a": "Enc", "typ": "server", "fields": fields(fs), "ser": ints(as.Serialize()), "sb": ints(as.SigningBytes()), "sbdet": bytes.Equal(as.SigningBytes(), as.SigningBytes())})
		// migration order with 0..3 servers
		{
			em := server.EquipmentMigration{NewShortID: pick32()}
			copy(em.Equipment[:], rb(32))
			copy(em.NewGCA[:], rb(32))
			copy(em.Signature[:], rb(64))
			var sv []byte
			for k := 0; k < rng.Intn(4); k++ {
				s2, _ := mkServer()
				em.NewServers = append(em.NewServers, s2)
				sv = append(sv, hx.RefServerBytes(hx.ToRawServer(s2))...)
			}
			f := map[string][]byte{"equip": em.Equipment[:], "newgca": em.NewGCA[:], "newid": b32(em.NewShortID), "servers": sv, "sig": em.Signature[:]}
			t.Emit(hx.J{"a": "Enc", "typ": "migration", "fields": fields(f), "ser": ints(em.Serialize()), "sb": ints(em.SigningBytes()), "sbdet": bytes.Equal(em.SigningBytes(), em.SigningBytes())})
		}
		// client server map entry, location lengths up to 65535
		{
			ll := []int{0, 1, 255, 256, 65535, rng.Intn(3000)}[rng.Intn(6)]
			if i%10 != 0 && ll > 3000 {
				ll = 300
			}
			gs := client.GCAServer{Banned: rng.Intn(2) == 0, Location: strings.Repeat("y", ll), HttpPort: uint16(pick32()), TcpPort: uint16(pick32()), UdpPort: uint16(pick32())}
			var k glow.PublicKey
			copy(k[:], rb(32))
			raw, serr := client.SerializeGCAServerMap(map[glow.PublicKey]client.GCAServer{k: gs})
			bn := []byte{0}
			if gs.Banned {
				bn = []byte{1}
			}
			f := map[string][]byte{"key": k[:], "banned": bn, "loclen": b16(uint16(ll)), "loc": []byte(gs.Location), "http": b16(gs.HttpPort), "tcp": b16(gs.TcpPort), "udp": b16(gs.UdpPort)}
			if serr == nil {
				t.Emit(hx.J{"a": "Enc", "typ": "mapentry", "fields": fields(f), "ser": ints(raw), "sb": []int{}, "sbdet": true})
			}
			// maps with 0..k entries round trip; trailing garbage is refused
			m := map[glow.PublicKey]client.GCAServer{}
			for e := 0; e < rng.Intn(5); e++ {
				var kk glow.PublicKey
				copy(kk[:], rb(32))
				m[kk] = client.GCAServer{Banned: e%2 == 0, Location: strings.Repeat("z", rng.Intn(40)), HttpPort: uint16(e), TcpPort: 7, UdpPort: 9}
			}
			raw2, _ := client.SerializeGCAServerMap(m)
			m2, derr := client.UntrustedDeserializeGCAServerMap(raw2)
			same := derr == nil && len(m2) == len(m)
			for kk, v := range m {
				if m2[kk] != v {
					same = false
				}
			}
			t.Emit(hx.J{"a": "Stream", "typ": "servermap", "k": len(m), "wellformed": true, "ok": derr == nil, "same": same})
			bad := append(append([]byte{}, raw2...), rb(1+rng.Intn(30))...)
			_, derr = client.UntrustedDeserializeGCAServerMap(bad)
			t.Emit(hx.J{"a": "Stream", "typ": "servermap", "k": len(m), "wellformed": false, "ok": derr == nil, "same": true})
			// one entry with a location at the top of the two-byte length range, cut short at several places: refused
			{
				ll := []int{65530, 65531, 65533, 65535, 65529, 300}[rng.Intn(6)]
				var kk glow.PublicKey
				copy(kk[:], rb(32))
				one, _ := client.SerializeGCAServerMap(map[glow.PublicKey]client.GCAServer{kk: {Location: strings.Repeat("w", ll), HttpPort: 8080, TcpPort: 9090, UdpPort: 7}})
				for _, cut := range []int{1, 2, 6, 7, 100, len(one) - 40, len(one) / 2} {
					if cut <= 0 || cut >= len(one) {
						continue
					}
					_, derr = client.UntrustedDeserializeGCAServerMap(one[:len(one)-cut])
					t.Emit(hx.J{"a": "Stream", "typ": "servermap", "k": 1, "wellformed": false, "ok": derr == nil, "same": true})
				}
				_, derr = client.UntrustedDeserializeGCAServerMap(one)
				t.Emit(hx.J{"a": "Stream", "typ": "servermap", "k": 1, "wellformed": true, "ok": derr == nil, "same": derr == nil})
			}
		}
	}
	// weekly statistics: 0..2 devices, streams of 0..3 records, truncated streams
	for i := 0; i < 4; i++ {
		var recs []server.AllDeviceStats
		var stream []byte
		for k := 0; k < i; k++ {
			w := server.AllDeviceStats{TimeslotOffset: pick32()}
			copy(w.Signature[:], rb(64))
			nd := rng.Intn(3)
			var devs []byte
			for d := 0; d < nd; d++ {
				var ds server.DeviceStats
				copy(ds.PublicKey[:], rb(32))
				for j := 0; j < 40; j++ {
					ds.PowerOutputs[rng.Intn(2016)] = pick64()
					ds.ImpactRates[rng.Intn(2016)] = pickF()
				}
				ds.PowerOutputs[0], ds.PowerOutputs[2015], ds.ImpactRates[0], ds.ImpactRates[2015] = 1<<64-1, 7, -0.5, math.MaxFloat64
				w.Devices = append(w.Devices, ds)
				devs = append(devs, ds.PublicKey[:]...)
				for _, p := range ds.PowerOutputs {
					devs = append(devs, b64(p)...)
				}
				for _, r := range ds.ImpactRates {
					devs = append(devs, b64(math.Float64bits(r))...)
				}
			}
			if k == 0 {
				f := map[string][]byte{"count": b32(uint32(nd)), "devices": devs, "offset": b32(w.TimeslotOffset), "sig": w.Signature[:]}
				t.Emit(hx.J{"a": "Enc", "typ": "week", "fields": fields(f), "ser": ints(w.Serialize()), "sb": ints(w.SigningBytes()), "sbdet": bytes.Equal(w.SigningBytes(), w.SigningBytes())})
			}
			recs = append(recs, w)
			stream = append(stream, w.Serialize()...)
		}
		// decode the stream record by record
		rest := stream
		same := true
		ok := true
		cnt := 0
		for len(rest) > 0 {
			w, used, derr := server.DeserializeStreamAllDeviceStats(rest)
			if derr != nil {
				ok = false
				break
			}
			if !bytes.Equal(hx.RefWeekBytes(hx.ToRawWeek(w)), rest[:used]) {
				same = false
			}
			rest = rest[used:]
			cnt++
		}
		t.Emit(hx.J{"a": "Stream", "typ": "weeks", "k": i, "wellformed": true, "ok": ok, "same": same && cnt == i})
		if len(stream) > 10 {
			_, _, derr := server.DeserializeStreamAllDeviceStats(stream[:len(stream)-1-rng.Intn(60)][len(stream)-len(recs[len(recs)-1].Serialize()):])
			t.Emit(hx.J{"a": "Stream", "typ": "weeks", "k": i, "wellformed": false, "ok": derr == nil, "same": true})
		}
	}
	// signing: deterministic, verifies, every flipped bit of message / signature / key is rejected
	nsig := 2
	if c.tier == "thorough" {
		nsig = 8
	}
	for i := 0; i < nsig; i++ {
		pub, priv := glow.GenerateKeyPair()
		msg := rb(20 + rng.Intn(60))
		s1 := glow.Sign(msg, priv)
		s2 := glow.Sign(msg, priv)
		flips, rej := 0, 0
		for b := 0; b < len(msg)*8; b++ {
			m := append([]byte{}, msg...)
			m[b/8] ^= 1 << (b % 8)
			flips++
			if !glow.Verify(pub, m, s1) {
				rej++
			}
		}
		for b := 0; b < 512; b++ {
			sg := s1
			sg[b/8] ^= 1 << (b % 8)
			flips++
			if !glow.Verify(pub, msg, sg) {
				rej++
			}
		}
		for b := 0; b < 256; b++ {
			pk := pub
			pk[b/8] ^= 1 << (b % 8)
			flips++
			if !glow.Verify(pk, msg, s1) {
				rej++
			}
		}
		// the second algebraic encoding (r, N-s) of the signature is not accepted
		t.Emit(hx.J{"a": "Sig", "det": s1 == s2, "verifies": glow.Verify(pub, msg, s1), "flips": flips, "flipsrejected": rej,
			"mallverifies": glow.Verify(pub, msg, hx.Malleate(s1))})
	}
	c.summary["events"] = t.Events
	c.summary["counts"] = t.Counts
	var small []hx.J
	for _, s := range t.Sample {
		if b, _ := json.Marshal(s); len(b) < 3000 {
			small = append(small, s)
		}
	}
	c.summary["samples"] = small
	return t.Close()
}
