package main

import (
	"encoding/binary"
	"fmt"
	"os"
	"path/filepath"
	"sync"
	"time"

	"github.com/glowlabs-org/gca-backend/client"
	"github.com/glowlabs-org/gca-backend/glow"
	"github.com/glowlabs-org/gca-backend/server"
	"verifharness/hx"
)

// Family "rounds" (C11, C17): the real client's sync rounds against harness
// TCP endpoints that refuse, reset, answer short, hang, answer with a wrong
// signature, or answer as rogue authorized servers with replies of every
// shape class; lists and migration orders signed by the GCA (or not).

func init() { families["rounds"] = runRounds }

type rEnv struct {
	abs   hx.Abs
	t     *hx.Trace
	c     *ctx
	fakes map[string]*hx.FakeTCP
	cur   map[string]hx.J // what each endpoint is serving, abstractly
	cli   *hx.CliEnv
	dev   string
	gca   string // the GCA whose signature lists must carry now

	mu       sync.Mutex
	rids     map[uint64]string // goroutine -> round name, for rounds that overlap
	lastPick map[string]string // round name -> server picked last
	latest   uint32            // latestReading handed to the rounds the driver runs
	sched    bool              // the report loop's scheduling events are traced; rounds are named as they begin
	recent   bool              // last-sync.txt says the last successful sync is recent
	nlaunch  int
	nreturn  int
	lost     bool   // more rounds in flight than there are names: the scenario is abandoned
	parkAt   string // round name to hold at the yield point sync:picked (once)
	parked   chan struct{}
	unpark   chan struct{}
}

// rid names the round the calling goroutine is running ("" when rounds do not overlap).
func (r *rEnv) rid() string {
	r.mu.Lock()
	defer r.mu.Unlock()
	return r.rids[hx.GoID()]
}

// with adds the round name to an event.
func (r *rEnv) with(j hx.J) hx.J {
	if x := r.rid(); x != "" {
		j["rid"] = x
	}
	return j
}

func (r *rEnv) fake(name string) *hx.FakeTCP {
	r.mu.Lock()
	defer r.mu.Unlock()
	if f, ok := r.fakes[name]; ok {
		return f
	}
	f, err := hx.NewFakeTCP()
	if err != nil {
		panic(err)
	}
	r.abs.KR.Gen(name)
	r.fakes[name] = f
	r.cur[name] = hx.J{"mode": "refuse", "reply": r.abs.DescribeReply(nil)}
	f.Set("refuse", nil, -1)
	return f
}

func (r *rEnv) gcaServer(name string, banned bool) client.GCAServer {
	f := r.fake(name)
	return client.GCAServer{Banned: banned, Location: "127.0.0.1", TcpPort: f.Port, UdpPort: f.UDPPort, HttpPort: 1}
}

// serve makes endpoint name answer in the given mode with the given body.
func (r *rEnv) serve(name, mode string, body []byte) {
	f := r.fake(name)
	f.HangFor = 400 * time.Millisecond
	f.Set(mode, body, -1)
	r.cur[name] = hx.J{"mode": mode, "reply": r.abs.DescribeReply(body)}
}

type replySpec struct {
	servers  []hx.RawServer
	mig      bool
	newGCA   string
	newID    uint32
	outer    string // signer of the migration order
	device   string // device key in the reply ("" = the client's)
	migFor   string // device key the migration order was signed for ("" = same)
	dt       int64  // time shift
	signer   string // "" = the endpoint's own key
	truncate int    // >0: rogue short reply of that length
	missing  bool   // the server holds nothing: every bit of the bitfield is clear
}

func (r *rEnv) entry(key string, banned bool, port uint16, signer string) hx.RawServer {
	f := r.fake(key)
	rs := hx.RawServer{PublicKey: r.abs.KR.Pub(key), Banned: banned, Location: "127.0.0.1", HttpPort: port, TcpPort: f.Port, UdpPort: f.UDPPort}
	if signer != "" {
		rs.Sig = r.abs.SR.Sign(signer, hx.RefServerSigningBytes(rs))
	}
	return rs
}

func (r *rEnv) build(owner string, sp replySpec) []byte {
	dev := sp.device
	if dev == "" {
		dev = r.dev
	}
	rr := hx.RawReply{DeviceKey: r.abs.KR.Gen(dev), Servers: sp.servers, Time: uint64(time.Now().Unix() + sp.dt)}
	for i := range rr.Bitfield {
		if !sp.missing {
			rr.Bitfield[i] = 0xff
		}
	}
	if sp.mig {
		rr.NewGCA = r.abs.KR.Gen(sp.newGCA)
		rr.NewID = sp.newID
		if sp.outer != "" {
			r2 := rr
			if sp.migFor != "" {
				r2.DeviceKey = r.abs.KR.Gen(sp.migFor)
			}
			rr.MigSig = r.abs.SR.Sign(sp.outer, hx.RefReplyMigrationSigningBytes(r2))
		}
	}
	signer := sp.signer
	if signer == "" {
		signer = owner
	}
	if sp.truncate > 0 {
		b := hx.RefReplyBody(rr)
		n := sp.truncate - 72
		if n > len(b)-8 {
			n = len(b) - 8
		}
		short := append(append([]byte(nil), b[:n]...), b[len(b)-8:]...)
		sig := r.abs.SR.Sign(signer, short)
		return append(short, sig[:]...)
	}
	rr.Sig = r.abs.SR.Sign(signer, hx.RefReplyBody(rr))
	return hx.RefReplyBytes(rr)
}

// roundAs runs one sync round under the given name in its own goroutine; the channel
// delivers the result after the RoundEnd event has been recorded.
func (r *rEnv) roundAs(name string) chan bool {
	res := make(chan bool, 1)
	go func() {
		if name != "" {
			r.mu.Lock()
			r.rids[hx.GoID()] = name
			r.mu.Unlock()
		}
		var ok bool
		done := make(chan string, 1)
		go func() {
			if name != "" {
				r.mu.Lock()
				r.rids[hx.GoID()] = name
				r.mu.Unlock()
			}
			done <- catchPanic(func() { ok = r.cli.C.VerifSyncRound(r.latest) })
		}()
		var p string
		select {
		case p = <-done:
		case <-time.After(20 * time.Second):
			p = "round did not return within 20 s"
		}
		// the report loop takes the mutex for a moment on every iteration: a lock that was leaked stays held, a
		// transient holder is gone within microseconds
		lockfree := false
		for try := 0; try < 100 && !lockfree; try++ {
			if lockfree = r.cli.C.VerifTryLock(); !lockfree {
				time.Sleep(2 * time.Millisecond)
			}
		}
		j := hx.J{"a": "RoundEnd", "ok": ok, "panic": p, "lockfree": lockfree, "dev": r.dev, "files": r.abs.CliFilesJ(r.cli.Dir)}
		if lockfree {
			j["state"] = r.abs.CliStateJ(r.cli.C.VerifState())
		} else {
			j["state"] = j["files"]
		}
		if name != "" {
			j["rid"] = name
		}
		r.t.Emit(j)
		res <- ok
	}()
	return res
}

func (r *rEnv) round() bool {
	ok := <-r.roundAs("")
	// the report loop must still be able to complete an iteration
	r.t.Emit(hx.J{"a": "LoopProbe", "ok": r.cli.Iterate()})
	return ok
}

func (r *rEnv) start() error {
	err := r.cli.Start()
	if err != nil {
		return err
	}
	return nil
}

func runRounds(c *ctx) error {
	t, err := hx.NewTrace(c.out)
	if err != nil {
		return err
	}
	rng := c.rng
	kr := hx.NewKeyRing()
	for _, k := range []string{"gca", "gca2", "x1"} {
		kr.Gen(k)
	}
	abs := hx.Abs{KR: kr, SR: hx.NewSigReg(kr)}
	nscn := 0
	newEnv := func(name string, servers map[string]bool) (*rEnv, error) {
		nscn++
		t.Scenario(name)
		r := &rEnv{abs: abs, t: t, c: c, fakes: map[string]*hx.FakeTCP{}, cur: map[string]hx.J{}, dev: fmt.Sprintf("dev%d", nscn), gca: "gca",
			rids: map[uint64]string{}, lastPick: map[string]string{}, parked: make(chan struct{}, 1), unpark: make(chan struct{})}
		cli, err := hx.NewCliEnv(abs, t, c.root, r.dev, uint32(100+nscn), 50, nil)
		if err != nil {
			return nil, err
		}
		r.cli = cli
		m := map[glow.PublicKey]client.GCAServer{}
		for k, banned := range servers {
			m[kr.Gen(k)] = r.gcaServer(k, banned)
		}
		raw, _ := client.SerializeGCAServerMap(m)
		os.WriteFile(filepath.Join(cli.Dir, client.GCAServerMapFile), raw, 0644)
		t.Emit(hx.J{"a": "CliFiles", "files": abs.CliFilesJ(cli.Dir)})
		cli.Install()
		cli.Extra = func(cl *client.Client, ev string, args []interface{}) bool {
			if !r.sched {
				switch ev {
				case "LoopInit", "LoopTick", "SyncLaunch", "SyncReturn":
					return true // only traced in the scheduling scenarios
				}
			} else {
				if r.lost {
					return true
				}
				switch ev {
				case "LoopInit":
					t.Emit(hx.J{"a": "LoopInit", "status": int(args[0].(uint64)), "ticks": args[1].(int), "recent": r.recent})
					return true
				case "LoopTick":
					t.Emit(hx.J{"a": "LoopTick", "ticks": args[0].(int)})
					return true
				case "SyncLaunch":
					r.mu.Lock()
					r.nlaunch++
					r.mu.Unlock()
					t.Emit(hx.J{"a": "SyncLaunch"})
					return true
				case "SyncReturn":
					j := r.with(hx.J{"a": "SyncReturn", "ok": args[0].(bool), "dev": r.dev})
					t.Emit(j)
					r.mu.Lock()
					delete(r.rids, hx.GoID())
					r.nreturn++
					r.mu.Unlock()
					return true
				case "SyncBegin":
					// a round started by the loop: name its goroutine
					r.mu.Lock()
					used := map[string]bool{}
					for _, n := range r.rids {
						used[n] = true
					}
					name := ""
					for _, n := range []string{"r1", "r2", "r3", "r4"} {
						if !used[n] {
							name = n
							break
						}
					}
					if name == "" {
						r.lost = true
					} else {
						r.rids[hx.GoID()] = name
					}
					r.mu.Unlock()
					if name == "" {
						t.Emit(hx.J{"a": "DriverNote", "note": "more than four rounds in flight: the rest of this scenario is not traced"})
						return true
					}
				}
			}
			switch ev {
			case "Send":
				// a datagram: by which round (if any) and to which server (by its UDP port)
				raw := args[0].([]byte)
				dst := args[1].(client.GCAServer)
				to := "?"
				r.mu.Lock()
				for n, f := range r.fakes {
					if f.UDPPort == dst.UdpPort {
						to = n
					}
				}
				r.mu.Unlock()
				t.Emit(r.with(hx.J{"a": "Send", "ts": hx.Clamp30(uint64(binary.LittleEndian.Uint32(raw[4:]))), "to": to}))
			case "SyncBegin":
				t.Emit(r.with(hx.J{"a": "SyncBegin", "state": abs.CliStateJ(cl.VerifStateLocked())}))
			case "SyncPick":
				k := kr.Name(args[0].(glow.PublicKey))
				serving, ok := r.cur[k]
				if !ok {
					serving = hx.J{"mode": "refuse", "reply": abs.DescribeReply(nil)}
				}
				r.mu.Lock()
				r.lastPick[r.rids[hx.GoID()]] = k
				r.mu.Unlock()
				t.Emit(r.with(hx.J{"a": "SyncPick", "server": k, "dev": r.dev, "serving": serving, "state": abs.CliStateJ(cl.VerifStateLocked())}))
			case "SyncApply":
				_ = args[2].([]server.AuthorizedServer)
				t.Emit(r.with(hx.J{"a": "SyncApply", "dev": r.dev, "state": abs.CliStateJ(cl.VerifStateLocked()), "files": abs.CliFilesJ(cli.Dir)}))
			default:
				return false
			}
			return true
		}
		// a round named in parkAt is held once at the yield point after its pick, before it connects
		cli.YieldExtra = func(p string) {
			if p != "sync:picked" {
				return
			}
			r.mu.Lock()
			hold := r.parkAt != "" && r.rids[hx.GoID()] == r.parkAt
			if hold {
				r.parkAt = ""
			}
			r.mu.Unlock()
			if hold {
				r.parked <- struct{}{}
				<-r.unpark
			}
		}
		if err := cli.Start(); err != nil {
			return nil, err
		}
		// ClientStart as emitted by CliEnv lacks the identity state: add it
		return r, nil
	}
	_ = newEnv
	_ = rng
	return runRoundScenarios(c, t, abs, newEnv)
}
