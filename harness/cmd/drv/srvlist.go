package main

import (
	"fmt"

	"verifharness/hx"
)

// Family "srvlist" (C17, server side): sequences of server-authorization
// posts (new, duplicate with changed ports, ban, un-ban attempt, bad or
// foreign signature), the list and the sync reply fetched after each.

func init() { families["srvlist"] = runSrvList }

func runSrvList(c *ctx) error {
	t, err := hx.NewTrace(c.out)
	if err != nil {
		return err
	}
	s := newScn(c, t)
	s.Quiet["ImpactList"] = true
	s.Quiet["ImpactSet"] = false
	rng := c.rng
	nh := 4
	if c.tier == "thorough" {
		nh = 40
	}
	for h := 0; h < nh; h++ {
		if err := s.fresh(fmt.Sprintf("srvlist/%d", h), 1000); err != nil {
			return err
		}
		if err := s.device(1, "d1", 100); err != nil {
			return err
		}
		keys := []string{"a1", "a2", "a3"}
		n := 10 + rng.Intn(10)
		for i := 0; i < n; i++ {
			k := keys[rng.Intn(len(keys))]
			sp := hx.ServerSpec{Key: k, Banned: rng.Intn(3) == 0, Loc: []string{"127.0.0.1", "10.0.0.9", ""}[rng.Intn(3)],
				Ports: [3]uint16{1, uint16(rng.Intn(3)), 1}, Signer: []string{"gca", "gca", "gca", "gca", "x1", "temp", "gca2", ""}[rng.Intn(8)]}
			if h == 0 { // directed: new, changed ports, ban, un-ban attempt, re-ban with other fields
				switch i {
				case 0:
					sp = hx.ServerSpec{Key: "a1", Loc: "127.0.0.1", Ports: [3]uint16{1, 1, 1}, Signer: "gca"}
				case 1:
					sp = hx.ServerSpec{Key: "a1", Loc: "127.0.0.1", Ports: [3]uint16{1, 2, 1}, Signer: "gca"}
				case 2:
					sp = hx.ServerSpec{Key: "a1", Banned: true, Loc: "127.0.0.1", Ports: [3]uint16{1, 1, 1}, Signer: "x1"}
				case 3:
					sp = hx.ServerSpec{Key: "a1", Banned: true, Loc: "10.0.0.9", Ports: [3]uint16{1, 1, 1}, Signer: "gca"}
				case 4:
					sp = hx.ServerSpec{Key: "a1", Banned: false, Loc: "127.0.0.1", Ports: [3]uint16{1, 1, 1}, Signer: "gca"}
				case 5:
					sp = hx.ServerSpec{Key: "a1", Banned: true, Loc: "127.0.0.1", Ports: [3]uint16{7, 7, 7}, Signer: "gca"}
				}
			}
			s.AuthorizeServer(s.BuildServer(sp))
			s.QueryServers()
			if body, refused, err := s.SyncFetch(1); err == nil {
				s.EmitSyncResp(1, body, refused)
			}
		}
	}
	s.Close()
	c.summary["events"] = t.Events
	c.summary["counts"] = t.Counts
	c.summary["samples"] = t.Sample
	return t.Close()
}
