package main

import (
	"fmt"
	"math"

	"verifharness/hx"
)

// Family "slot" (C02): sequences of valid reports for one device and slot,
// exhaustively over a small alphabet, and long random sequences over several
// devices and slots including permutations of one multiset.

type sym struct {
	name   string
	val    uint64
	alt    int    // re-signed variant
	signer string // "" = the device itself
	rel    int    // 1: val is an offset from the device's limit cap*135/100 (0 = limit, 1 = limit+1, ...)
}

// valFor gives the concrete value of a symbol for a device of the given capacity.
func (a sym) valFor(cap uint64) uint64 {
	if a.rel != 0 {
		return cap*135/100 + a.val
	}
	return a.val
}

func slotAlphabet() []sym {
	return []sym{
		{"two", 2, 0, "", 0},
		{"a", 50, 0, "", 0},
		{"b", 60, 0, "", 0},
		{"a-resigned", 50, 1, "", 0},
		{"limit", 0, 0, "", 1},
		{"limit+1", 1, 0, "", 1},
		{"neg", math.MaxUint64 - 4, 0, "", 0},
		{"huge", math.MaxInt64 - 1, 0, "", 0},
		{"maxint", math.MaxInt64, 0, "", 0},
		{"minneg", math.MaxInt64 + 1, 0, "", 0},
	}
}

func init() { families["slot"] = runSlot }

func runSlot(c *ctx) error {
	t, err := hx.NewTrace(c.out)
	if err != nil {
		return err
	}
	s := newScn(c, t)
	s.Quiet["ImpactList"] = true
	s.Quiet["RotPoll"] = true
	s.WithDisk = true // restarts are judged against the files
	alpha := slotAlphabet()
	maxLen := 3
	if c.tier == "thorough" {
		maxLen = 4
	}
	const t0 = 1000
	const perScn = 24
	// exhaustive part: every sequence of length 1..maxLen; each sequence gets
	// its own (device, slot); devices alternate so that neighbouring
	// sequences exercise isolation between devices and between slots
	var seqs [][]int
	var gen func(prefix []int)
	gen = func(prefix []int) {
		if len(prefix) > 0 {
			seqs = append(seqs, append([]int(nil), prefix...))
		}
		if len(prefix) == maxLen {
			return
		}
		for i := range alpha {
			gen(append(prefix, i))
		}
	}
	gen(nil)
	// quick tier: a seeded sample of the length-3 sequences plus all shorter
	if c.tier != "thorough" {
		var keep [][]int
		for _, q := range seqs {
			if len(q) < 3 || c.rng.Intn(4) == 0 {
				keep = append(keep, q)
			}
		}
		seqs = keep
	}
	nev := 0
	for i := 0; i < len(seqs); i += perScn {
		if err := s.fresh(fmt.Sprintf("slot/exh/%d", i/perScn), t0); err != nil {
			return err
		}
		// capacities that are and are not multiples of 100, one below 100: the limit is cap*135/100 in integers
		capsets := [][2]uint64{{100, 1050}, {137, 99}, {12345, 100}}
		caps := capsets[(i/perScn)%len(capsets)]
		if err := s.device(1, "d1", caps[0]); err != nil {
			return err
		}
		if err := s.device(2, "d2", caps[1]); err != nil {
			return err
		}
		for j := i; j < i+perScn && j < len(seqs); j++ {
			id := uint32(1 + j%2)
			key := fmt.Sprintf("d%d", id)
			ts := uint32(t0 - 400 + (j-i)*30)
			for _, k := range seqs[j] {
				a := alpha[k]
				s.Deliver(s.ReportBytes(id, ts, a.valFor(caps[id-1]), key, a.alt))
				nev++
			}
		}
		// what a slot publishes is the same function of the reports after a restart (twice)
		if (i/perScn)%3 == int(c.seed)%3 || c.tier == "thorough" {
			if err := s.Restart(); err != nil {
				return err
			}
			// later, still before the rotation: the stored reports are older than the acceptance range now
			s.Tick(t0 + 600)
			if err := s.Restart(); err != nil {
				return err
			}
		}
	}
	// a report that arrives before its timeslot is acceptable and is replayed, byte for byte, once it is
	{
		if err := s.fresh("slot/early", t0); err != nil {
			return err
		}
		for id := uint32(1); id <= 2; id++ {
			if err := s.device(id, fmt.Sprintf("d%d", id), 10000); err != nil {
				return err
			}
		}
		r1 := s.ReportBytes(1, uint32(t0+500), 4000, "d1", 0)
		r2 := s.ReportBytes(2, uint32(t0+500), 4100, "d2", 0)
		s.Deliver(r1) // too early: nothing changes
		s.Deliver(r2)
		s.Tick(uint32(t0 + 100))
		s.Deliver(r1) // now acceptable: recorded, however often it is replayed
		s.Deliver(r1)
		s.Deliver(s.ReportBytes(2, uint32(t0+99), 77, "d2", 0))
		s.Deliver(r2)
		s.SendUDP(r1)
		nev += 7
		if err := s.Restart(); err != nil {
			return err
		}
	}
	// random part: several devices and slots, replays, and the same multiset
	// delivered in two different orders to two servers
	rounds := 2
	if c.tier == "thorough" {
		rounds = 12
	}
	for r := 0; r < rounds; r++ {
		type rep struct {
			id, ts uint32
			k      int
		}
		n := 40 + c.rng.Intn(60)
		var multi []rep
		for i := 0; i < n; i++ {
			multi = append(multi, rep{uint32(1 + c.rng.Intn(3)), uint32(t0 - 432 + c.rng.Intn(6)*172), c.rng.Intn(len(alpha))})
		}
		for perm := 0; perm < 2; perm++ {
			if err := s.fresh(fmt.Sprintf("slot/rand/%d/%d", r, perm), t0); err != nil {
				return err
			}
			rcaps := []uint64{0, 100, 1337, 60 + uint64(r)}
			for id := uint32(1); id <= 3; id++ {
				if err := s.device(id, fmt.Sprintf("d%d", id), rcaps[id]); err != nil {
					return err
				}
			}
			order := c.rng.Perm(len(multi))
			for _, i := range order {
				m := multi[i]
				a := alpha[m.k]
				b := s.ReportBytes(m.id, m.ts, a.valFor(rcaps[m.id]), fmt.Sprintf("d%d", m.id), a.alt)
				if c.rng.Intn(5) == 0 {
					s.SendUDP(b)
				} else {
					s.Deliver(b)
				}
				nev++
			}
		}
	}
	s.Close()
	c.summary["sequences"] = len(seqs)
	c.summary["reports"] = nev
	c.summary["events"] = t.Events
	c.summary["counts"] = t.Counts
	c.summary["samples"] = t.Sample
	return t.Close()
}
