package main

import (
	"fmt"
	"math"

	"verifharness/hx"
)

// Family "slot" (C02): sequences of valid reports for one device and slot,
// exhaustively over a small alphabet, and long random sequences over several
// devices and slots including permutations of one multiset.

type sym struct {
	name   string
	val    uint64
	alt    int    // re-signed variant
	signer string // "" = the device itself
}

func slotAlphabet() []sym {
	return []sym{
		{"two", 2, 0, ""},
		{"a", 50, 0, ""},
		{"b", 60, 0, ""},
		{"a-resigned", 50, 1, ""},
		{"limit", 135, 0, ""},
		{"limit+1", 136, 0, ""},
		{"neg", math.MaxUint64 - 4, 0, ""},
		{"huge", math.MaxInt64 - 1, 0, ""},
		{"maxint", math.MaxInt64, 0, ""},
		{"minneg", math.MaxInt64 + 1, 0, ""},
	}
}

func init() { families["slot"] = runSlot }

func runSlot(c *ctx) error {
	t, err := hx.NewTrace(c.out)
	if err != nil {
		return err
	}
	s := newScn(c, t)
	s.Quiet["ImpactList"] = true
	s.Quiet["RotPoll"] = true
	alpha := slotAlphabet()
	maxLen := 3
	if c.tier == "thorough" {
		maxLen = 4
	}
	const t0 = 1000
	const perScn = 24
	// exhaustive part: every sequence of length 1..maxLen; each sequence gets
	// its own (device, slot); devices alternate so that neighbouring
	// sequences exercise isolation between devices and between slots
	var seqs [][]int
	var gen func(prefix []int)
	gen = func(prefix []int) {
		if len(prefix) > 0 {
			seqs = append(seqs, append([]int(nil), prefix...))
		}
		if len(prefix) == maxLen {
			return
		}
		for i := range alpha {
			gen(append(prefix, i))
		}
	}
	gen(nil)
	// quick tier: a seeded sample of the length-3 sequences plus all shorter
	if c.tier != "thorough" {
		var keep [][]int
		for _, q := range seqs {
			if len(q) < 3 || c.rng.Intn(4) == 0 {
				keep = append(keep, q)
			}
		}
		seqs = keep
	}
	nev := 0
	for i := 0; i < len(seqs); i += perScn {
		if err := s.fresh(fmt.Sprintf("slot/exh/%d", i/perScn), t0); err != nil {
			return err
		}
		if err := s.device(1, "d1", 100); err != nil {
			return err
		}
		if err := s.device(2, "d2", 100); err != nil {
			return err
		}
		for j := i; j < i+perScn && j < len(seqs); j++ {
			id := uint32(1 + j%2)
			key := fmt.Sprintf("d%d", id)
			ts := uint32(t0 - 400 + (j-i)*30)
			for _, k := range seqs[j] {
				a := alpha[k]
				s.Deliver(s.ReportBytes(id, ts, a.val, key, a.alt))
				nev++
			}
		}
	}
	// random part: several devices and slots, replays, and the same multiset
	// delivered in two different orders to two servers
	rounds := 2
	if c.tier == "thorough" {
		rounds = 12
	}
	for r := 0; r < rounds; r++ {
		type rep struct {
			id, ts uint32
			k      int
		}
		n := 40 + c.rng.Intn(60)
		var multi []rep
		for i := 0; i < n; i++ {
			multi = append(multi, rep{uint32(1 + c.rng.Intn(3)), uint32(t0 - 432 + c.rng.Intn(6)*172), c.rng.Intn(len(alpha))})
		}
		for perm := 0; perm < 2; perm++ {
			if err := s.fresh(fmt.Sprintf("slot/rand/%d/%d", r, perm), t0); err != nil {
				return err
			}
			for id := uint32(1); id <= 3; id++ {
				if err := s.device(id, fmt.Sprintf("d%d", id), 100); err != nil {
					return err
				}
			}
			order := c.rng.Perm(len(multi))
			for _, i := range order {
				m := multi[i]
				a := alpha[m.k]
				b := s.ReportBytes(m.id, m.ts, a.val, fmt.Sprintf("d%d", m.id), a.alt)
				if c.rng.Intn(5) == 0 {
					s.SendUDP(b)
				} else {
					s.Deliver(b)
				}
				nev++
			}
		}
	}
	s.Close()
	c.summary["sequences"] = len(seqs)
	c.summary["reports"] = nev
	c.summary["events"] = t.Events
	c.summary["counts"] = t.Counts
	c.summary["samples"] = t.Sample
	return t.Close()
}
