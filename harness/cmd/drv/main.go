// Command drv runs scenario families against the real server / client /
// library code built from /repo and records ndjson traces that TLC validates
// against the TLA+ trace specifications.
package main

import (
	"encoding/json"
	"flag"
	"fmt"
	"math/rand"
	"os"
	"path/filepath"
	"time"

	"verifharness/hx"
)

type ctx struct {
	seed    int64
	tier    string
	out     string
	root    string // scratch directory for server/client directories
	rng     *rand.Rand
	summary hx.J
	only    string
}

func (c *ctx) part(p string) bool { return c.only == "" || c.only == p }

var families = map[string]func(*ctx) error{}

func main() {
	if len(os.Args) < 2 {
		fmt.Fprintln(os.Stderr, "usage: drv <family> [flags]")
		os.Exit(2)
	}
	fam := os.Args[1]
	fs := flag.NewFlagSet(fam, flag.ExitOnError)
	seed := fs.Int64("seed", 1, "seed")
	tier := fs.String("tier", "quick", "quick|thorough")
	out := fs.String("out", "trace.ndjson", "trace output")
	root := fs.String("root", "", "scratch root")
	sum := fs.String("summary", "", "summary json output")
	only := fs.String("only", "", "run only this part of the family")
	fs.Parse(os.Args[2:])
	f, ok := families[fam]
	if !ok {
		fmt.Fprintln(os.Stderr, "unknown family", fam)
		os.Exit(2)
	}
	if *root == "" {
		d, err := os.MkdirTemp("", "drv-")
		if err != nil {
			panic(err)
		}
		*root = d
		defer os.RemoveAll(d)
	}
	os.Setenv("TMPDIR", *root)
	c := &ctx{seed: *seed, tier: *tier, out: *out, root: *root, rng: rand.New(rand.NewSource(*seed)), summary: hx.J{}, only: *only}
	start := time.Now()
	// the test build's servers and clients panic after 120 s alive: a driver
	// process must be short-lived
	go func() {
		time.Sleep(110 * time.Second)
		fmt.Fprintln(os.Stderr, "drv: exceeded 110 s, giving up; the partial trace is kept")
		hx.FlushAll()
		os.Exit(4)
	}()
	if err := f(c); err != nil {
		// the driver gave up (e.g. the server no longer starts); what it recorded so far is
		// still a behaviour of the real code and is validated by the caller
		fmt.Fprintln(os.Stderr, "drv:", err)
		hx.FlushAll()
		os.Exit(3)
	}
	c.summary["wall_s"] = time.Since(start).Seconds()
	if *sum != "" {
		b, _ := json.MarshalIndent(c.summary, "", " ")
		os.WriteFile(*sum, b, 0644)
	}
}

// scn is a running scenario: a fresh server directory, registered GCA.
type scn struct {
	*hx.Env
	c *ctx
	n int
}

func newScn(c *ctx, t *hx.Trace) *scn {
	return &scn{Env: hx.NewEnv(t), c: c}
}

// fresh closes the current server (if any) and starts scenario name on a new
// directory with the clock at t0; the GCA "gca" is registered.
func (s *scn) fresh(name string, t0 uint32) error {
	s.Close()
	s.n++
	s.T.Scenario(name)
	s.NewDir(s.c.root, fmt.Sprintf("srv%d", s.n))
	s.Tick(t0)
	if err := s.Start(); err != nil {
		return fmt.Errorf("scenario %s: start: %v", name, err)
	}
	if st := s.Register("gca", "temp", "gca"); st != 200 {
		return fmt.Errorf("scenario %s: registration status %d", name, st)
	}
	return nil
}

func (s *scn) device(id uint32, key string, cap uint64) error {
	a := s.BuildAuth(hx.AuthSpec{ID: id, Key: key, Cap: cap, Lat: 12.5, Long: -7.25, Debt: 11, Exp: 100000, Init: 1, Fee: 3, Signer: "gca"})
	if st := s.Authorize(a); st != 200 {
		return fmt.Errorf("authorize %d: status %d", id, st)
	}
	return nil
}

func (s *scn) cleanup() {
	s.Close()
	os.RemoveAll(filepath.Join(s.c.root))
}
