package main

import (
	"fmt"
	"github.com/glowlabs-org/gca-backend/glow"
	"sync"
	"time"

	"verifharness/hx"
)

// Family "conc" (C13): for every place where an operation runs between two
// critical sections, every interfering operation of a menu is injected there
// (the multi-section operation is held at a yield point); plus randomized
// many-goroutine workloads (built with the race detector by the check).

func init() { families["conc"] = runConc }

type cEnv struct {
	*scn
	nextID uint32
	devs   []uint32
}

func (e *cEnv) addDevice() uint32 {
	e.nextID++
	id := e.nextID
	e.Authorize(e.BuildAuth(hx.AuthSpec{ID: id, Key: fmt.Sprintf("c%d", id), Cap: 1000, Signer: "gca"}))
	e.devs = append(e.devs, id)
	return id
}

func (e *cEnv) ban(id uint32) {
	e.Authorize(e.BuildAuth(hx.AuthSpec{ID: id, Key: fmt.Sprintf("c%d", id), Cap: 31337, Signer: "gca"}))
	var keep []uint32
	for _, d := range e.devs {
		if d != id {
			keep = append(keep, d)
		}
	}
	e.devs = keep
}

func (e *cEnv) report(id uint32) {
	e.Deliver(e.ReportBytes(id, e.Now()-uint32(e.c.rng.Intn(200)), 30+uint64(e.c.rng.Intn(50)), fmt.Sprintf("c%d", id), 0))
}

// rotateNow makes the real rotation thread rotate: the clock passes the trigger.
func (e *cEnv) rotateNow() {
	off := e.Srv.VerifSnapshot().Offset
	e.Tick(off + 3201 + uint32(e.c.rng.Intn(100)))
	e.waitOffset(off + 2016)
}

func runConc(c *ctx) error {
	t, err := hx.NewTrace(c.out)
	if err != nil {
		return err
	}
	s := newScn(c, t)
	s.WithDisk = true
	s.Quiet["ImpactList"] = true
	e := &cEnv{scn: s, nextID: 10}
	gaps := []string{"impact:before-update", "rot:decided", "rot:before-lock", "sync:between", "authsrv:between", "authz:before-peers",
		"migrate:validated", "stats:after-unlock"}
	gates := map[string]*hx.Gate{}
	for _, g := range gaps {
		gates[g] = s.NewGate(g)
	}
	menu := []string{"ban", "authorize", "report", "rotate", "report-banned"}
	clock := uint32(1000)
	// --only impactrot: just the rotation inside a round of the impact collector (C03: impact rates
	// reach the archived week unshifted), all sampling filters off
	impactrot := c.only == "impactrot"
	// --only syncrot: just the rotation between the two critical sections of the sync handler (C10: the
	// reply's offset and bitfield are one state of the server)
	focus := map[string][2]string{"impactrot": {"impact:before-update", "rotate"}, "syncrot": {"sync:between", "rotate"}}
	fo, focused := focus[c.only]
	if c.part("gaps") || focused {
		nsc := 0
		for _, gap := range gaps {
			for _, op := range menu {
				if focused && !(gap == fo[0] && op == fo[1]) {
					continue
				}
				if c.tier != "thorough" && !focused && (nsc+int(c.seed))%2 == 1 && gap != "impact:before-update" {
					nsc++
					continue
				}
				nsc++
				if op == "rotate" && (gap == "rot:decided" || gap == "rot:before-lock") {
					continue // the single rotation thread cannot interfere with itself
				}
				e.devs = nil
				clock = 1000
				if err := s.fresh(fmt.Sprintf("conc/gap/%s/%s", gap, op), clock); err != nil {
					return err
				}
				d1 := e.addDevice()
				d2 := e.addDevice()
				e.report(d1)
				e.report(d2)
				g := gates[gap]
				// start the multi-section operation and hold it in the gap
				var wg sync.WaitGroup
				g.ArmOnce()
				switch gap {
				case "impact:before-update":
					// the collector thread runs on its own every 20 ms
				case "rot:decided", "rot:before-lock":
					clock = 3201
					s.Tick(clock)
				case "sync:between":
					wg.Add(1)
					go func() {
						defer wg.Done()
						if body, refused, err := s.SyncFetch(d1); err == nil {
							s.EmitSyncResp(d1, body, refused)
						}
					}()
				case "authsrv:between":
					wg.Add(1)
					go func() {
						defer wg.Done()
						s.AuthorizeServer(s.BuildServer(hx.ServerSpec{Key: "peerA", Loc: "127.0.0.1", Ports: [3]uint16{1, 1, 1}, Signer: "gca"}))
					}()
				case "authz:before-peers":
					wg.Add(1)
					go func() { defer wg.Done(); e.addDevice() }()
				case "migrate:validated":
					wg.Add(1)
					go func() {
						defer wg.Done()
						s.Migrate(s.BuildMigration(fmt.Sprintf("c%d", d2), "gca2", 500, nil, "gca"))
					}()
				case "stats:after-unlock":
					wg.Add(1)
					go func() { defer wg.Done(); s.QueryStats("0", 0, true) }()
				}
				if g.WaitReached(5*time.Second) == nil {
					g.Release()
					wg.Wait()
					return fmt.Errorf("operation did not reach the gap %s", gap)
				}
				// the interfering operation runs to completion inside the gap
				switch op {
				case "ban":
					e.ban(d1)
				case "authorize":
					e.addDevice()
				case "report":
					e.report(d1)
					e.report(d2)
				case "rotate":
					e.rotateNow()
				case "report-banned":
					e.ban(d2)
					e.Deliver(e.ReportBytes(d2, e.Now()-5, 44, fmt.Sprintf("c%d", d2), 0))
				}
				g.Release()
				wg.Wait()
				time.Sleep(60 * time.Millisecond) // let the background threads finish their sections
				s.QueryStats("0", 0, false)
				if impactrot {
					// what the collector stored around the rotation is archived by the following rotations
					s.QueryStats("2016", 2016, false)
					e.rotateNow()
					e.rotateNow()
					for _, w := range []int64{0, 2016, 4032} {
						s.QueryStats(fmt.Sprint(w), w, false)
					}
				}
				s.CheckInv()
			}
		}
	}
	// racing pairs: for many devices, a report and the conflicting authorization that bans its device start from a common
	// gate with a swept head start; whatever the order, the handlers finish and the result is a sequential one
	if c.part("gaps") || c.only == "pairs" {
		if err := s.fresh("conc/pairs", 1000); err != nil {
			return err
		}
		npairs := 300
		if c.tier == "thorough" {
			npairs = 1200
		}
		for i := 0; i < npairs; i++ {
			d := e.addDevice()
			rep := e.ReportBytes(d, e.Now()-uint32(i%50), 30+uint64(i%40), fmt.Sprintf("c%d", d), 0)
			banAuth := e.BuildAuth(hx.AuthSpec{ID: d, Key: fmt.Sprintf("c%d", d), Cap: 31337, Signer: "gca"})
			start := make(chan struct{})
			var wg sync.WaitGroup
			wg.Add(2)
			// the authorization travels through HTTP (a few hundred microseconds); the report is handed to the handler
			// directly after a swept delay, so that the two critical sections meet in every alignment
			delay := time.Duration(i%75) * 12 * time.Microsecond
			go func() {
				defer wg.Done()
				<-start
				for t0 := time.Now(); time.Since(t0) < delay; {
				}
				e.Deliver(rep)
			}()
			go func() { defer wg.Done(); <-start; e.Authorize(banAuth) }()
			close(start)
			wg.Wait()
		}
		e.devs = nil
		s.CheckInv()
	}
	// racing authorizations: two different GCA-signed authorizations for the same fresh id (and, every third time, two
	// fresh ids with the same key) are posted at the same moment: the outcome is that of one of the two orders
	if c.part("gaps") || c.only == "authpairs" {
		if err := s.fresh("conc/authpairs", 1000); err != nil {
			return err
		}
		nap := 120
		if c.tier == "thorough" {
			nap = 500
		}
		// replies of concurrent requests for one id cannot be matched to the lock order of their handlers: not recorded
		s.NoResp = true
		for i := 0; i < nap; i++ {
			e.nextID += 2
			id := e.nextID
			var a1, a2 glow.EquipmentAuthorization
			if i%3 == 2 {
				a1 = e.BuildAuth(hx.AuthSpec{ID: id, Key: fmt.Sprintf("ap%d", id), Cap: 500, Signer: "gca"})
				a2 = e.BuildAuth(hx.AuthSpec{ID: id + 1, Key: fmt.Sprintf("ap%d", id), Cap: 500, Signer: "gca"})
			} else {
				a1 = e.BuildAuth(hx.AuthSpec{ID: id, Key: fmt.Sprintf("ap%d", id), Cap: 500, Signer: "gca"})
				a2 = e.BuildAuth(hx.AuthSpec{ID: id, Key: fmt.Sprintf("aq%d", id), Cap: 700, Signer: "gca"})
			}
			start := make(chan struct{})
			var wg sync.WaitGroup
			wg.Add(2)
			go func() { defer wg.Done(); <-start; e.Authorize(a1) }()
			go func() { defer wg.Done(); <-start; e.Authorize(a2) }()
			close(start)
			wg.Wait()
			if i%20 == 19 {
				s.CheckInv()
			}
		}
		s.NoResp = false
		s.CheckInv()
		if err := s.Restart(); err != nil {
			return err
		}
	}
	// randomized many-goroutine workload
	if c.part("random") {
		rounds, iters := 2, 8
		if c.tier == "thorough" {
			rounds, iters = 5, 12
		}
		for r := 0; r < rounds; r++ {
			e.devs = nil
			clock = 1000
			// half of the rounds start on an unregistered server: registrations race with the other posts
			if r%2 == 0 {
				s.Close()
				s.n++
				t.Scenario(fmt.Sprintf("conc/random/%d", r))
				s.NewDir(c.root, fmt.Sprintf("srv%d", s.n))
				s.Tick(clock)
				if err := s.Start(); err != nil {
					return err
				}
			} else if err := s.fresh(fmt.Sprintf("conc/random/%d", r), clock); err != nil {
				return err
			}
			s.NoResp = true
			var mu sync.Mutex // protects the driver's own bookkeeping (e.devs, rng)
			var wg sync.WaitGroup
			pick := func() (uint32, bool) {
				mu.Lock()
				defer mu.Unlock()
				if len(e.devs) == 0 {
					return 0, false
				}
				return e.devs[c.rng.Intn(len(e.devs))], true
			}
			rnd := func(n int) int { mu.Lock(); defer mu.Unlock(); return c.rng.Intn(n) }
			worker := func(kind int) {
				defer wg.Done()
				for i := 0; i < iters; i++ {
					switch kind {
					case 0: // registrations, server authorizations, migrations
						s.RegisterQuiet([]string{"gca", "gca2"}[rnd(2)], "temp")
						s.AuthorizeServer(s.BuildServer(hx.ServerSpec{Key: fmt.Sprintf("p%d", rnd(4)), Banned: rnd(4) == 0, Loc: "127.0.0.1", Ports: [3]uint16{1, 1, 1}, Signer: "gca"}))
						s.Migrate(s.BuildMigration("c11", "gca2", 9, nil, "gca"))
					case 5: // server authorizations and migrations only (they read the GCA key while a registration may be writing it)
						s.AuthorizeServer(s.BuildServer(hx.ServerSpec{Key: fmt.Sprintf("q%d", rnd(4)), Loc: "127.0.0.1", Ports: [3]uint16{1, 1, 1}, Signer: "gca"}))
						s.Migrate(s.BuildMigration("c12", "gca2", 9, nil, "gca"))
					case 1: // equipment
						mu.Lock()
						e.nextID++
						id := e.nextID
						mu.Unlock()
						st := s.Authorize(s.BuildAuth(hx.AuthSpec{ID: id, Key: fmt.Sprintf("c%d", id), Cap: 1000, Signer: "gca"}))
						if st == 200 {
							mu.Lock()
							e.devs = append(e.devs, id)
							mu.Unlock()
						}
						if rnd(5) == 0 {
							if d, ok := pick(); ok {
								s.Authorize(s.BuildAuth(hx.AuthSpec{ID: d, Key: fmt.Sprintf("c%d", d), Cap: 31337, Signer: "gca"}))
							}
						}
					case 2: // reports over real UDP and direct
						if d, ok := pick(); ok {
							b := s.ReportBytes(d, s.Now()-uint32(rnd(100)), 30+uint64(rnd(60)), fmt.Sprintf("c%d", d), 0)
							if rnd(2) == 0 {
								s.Deliver(b)
							} else {
								s.SendUDPNoWait(b)
							}
						}
					case 3: // reads
						if d, ok := pick(); ok {
							s.SyncFetch(d)
						}
						s.Get("/api/v1/all-device-stats?timeslot_offset=0&insert_false_negatives=true")
						s.Get("/api/v1/equipment")
						s.Get("/api/v1/archive")
					case 4: // clock: forces rotations
						if i%8 == 7 {
							mu.Lock()
							clock += 2016
							cl := clock
							mu.Unlock()
							s.Tick(cl)
							time.Sleep(120 * time.Millisecond)
						} else {
							time.Sleep(10 * time.Millisecond)
						}
					}
				}
			}
			for k := 5; k >= 0; k-- {
				wg.Add(2)
				go worker(k)
				go worker(k)
			}
			wg.Wait()
			s.NoResp = false
			time.Sleep(150 * time.Millisecond)
			s.CheckInv()
		}
	}
	s.Close()
	c.summary["events"] = t.Events
	c.summary["counts"] = t.Counts
	c.summary["samples"] = t.Sample
	return t.Close()
}
