package main

import (
	"fmt"
	"github.com/glowlabs-org/gca-backend/glow"
	"math"
	"os"
	"path/filepath"
	"sync"

	"verifharness/hx"
)

// Family "equip" (C06, C07): sequences of registrations and authorizations
// (valid, invalid and foreign signatures, duplicates, conflicts in any single
// field, reused keys, submissions for banned ids) interleaved with reports
// and restarts, through the JSON endpoints.

func init() { families["equip"] = runEquip }

type eqSym struct {
	name string
	run  func(s *scn)
}

func eqAlphabet(c *ctx) []eqSym {
	base := func(id uint32, key string) hx.AuthSpec {
		return hx.AuthSpec{ID: id, Key: key, Cap: 100, Lat: 38.5, Long: -120.25, Debt: 7, Exp: 500000, Init: 3, Fee: 9, Signer: "gca"}
	}
	auth := func(name string, f func() hx.AuthSpec) eqSym {
		return eqSym{name, func(s *scn) { s.Authorize(s.BuildAuth(f())) }}
	}
	return []eqSym{
		auth("new1", func() hx.AuthSpec { return base(1, "d1") }),
		auth("new2", func() hx.AuthSpec { return base(2, "d2") }),
		auth("dup1", func() hx.AuthSpec { return base(1, "d1") }),
		auth("c1-cap", func() hx.AuthSpec { a := base(1, "d1"); a.Cap = 101; return a }),
		auth("c1-lat", func() hx.AuthSpec { a := base(1, "d1"); a.Lat = 38.501; return a }),
		auth("c1-fee", func() hx.AuthSpec { a := base(1, "d1"); a.Fee = 10; return a }),
		auth("c1-newkey", func() hx.AuthSpec { return base(1, "d9") }),
		auth("c1-key-of-2", func() hx.AuthSpec { return base(1, "d2") }),
		auth("c2-key-of-1", func() hx.AuthSpec { return base(2, "d1") }),
		auth("fresh3-key-of-1", func() hx.AuthSpec { return base(3, "d1") }),
		auth("unsigned4", func() hx.AuthSpec { a := base(4, "d4"); a.Signer = ""; return a }),
		auth("temp-signed4", func() hx.AuthSpec { a := base(4, "d4"); a.Signer = "temp"; return a }),
		auth("gca2-signed4", func() hx.AuthSpec { a := base(4, "d4"); a.Signer = "gca2"; return a }),
		{"resigned1", func(s *scn) { // the content of new1 under another valid signature of the GCA: a different authorization
			ra := hx.ToRawAuth(s.BuildAuth(base(1, "d1")))
			ra.Signature = s.SR.SignAlt("gca", hx.RefAuthSigningBytes(ra), 1)
			s.Authorize(hx.FromRawAuth(ra))
		}},
		{"stolen-sig6", func(s *scn) { // the signature bytes of new1's authorization pasted onto an authorization for other equipment
			genuine := hx.ToRawAuth(s.BuildAuth(base(1, "d1")))
			forged := hx.ToRawAuth(s.BuildAuth(base(6, "d6")))
			forged.Signature = genuine.Signature
			s.Authorize(hx.FromRawAuth(forged))
		}},
		{"altered1", func(s *scn) { // valid signature, then one field changed
			a := s.BuildAuth(base(5, "d5"))
			a.Capacity++
			s.Authorize(a)
		}},
		{"report1", func(s *scn) { s.Deliver(s.ReportBytes(1, s.Now()-uint32(c.rng.Intn(5)), 40, "d1", 0)) }},
		{"report2", func(s *scn) { s.Deliver(s.ReportBytes(2, s.Now()-uint32(c.rng.Intn(5)), 41, "d2", 0)) }},
		{"report1-by-2", func(s *scn) { s.Deliver(s.ReportBytes(1, s.Now()-7, 42, "d2", 0)) }},
		{"restart", func(s *scn) {
			if err := s.Restart(); err != nil {
				s.T.Emit(hx.J{"a": "DriverNote", "note": "restart failed: " + err.Error()})
			}
		}},
	}
}

func runEquip(c *ctx) error {
	t, err := hx.NewTrace(c.out)
	if err != nil {
		return err
	}
	s := newScn(c, t)
	s.WithDisk = true
	s.Quiet["ImpactList"] = true
	alpha := eqAlphabet(c)
	observe := func() {
		if s.Srv == nil {
			return
		}
		s.CheckInv()
		s.QueryEquipment()
	}
	runSeq := func(name string, seq []int) error {
		if err := s.fresh(name, 1000); err != nil {
			return err
		}
		for _, k := range seq {
			if s.Srv == nil {
				break
			}
			alpha[k].run(s)
			observe()
		}
		return nil
	}
	// exhaustive short sequences
	var seqs [][]int
	for i := range alpha {
		seqs = append(seqs, []int{i})
		for j := range alpha {
			seqs = append(seqs, []int{i, j})
		}
	}
	if c.tier == "thorough" {
		for i := range alpha {
			for j := range alpha {
				for k := range alpha {
					if c.rng.Intn(3) == 0 {
						seqs = append(seqs, []int{i, j, k})
					}
				}
			}
		}
	}
	// directed sequences the quantifier names, and random longer ones
	name := map[string]int{}
	for i, a := range alpha {
		name[a.name] = i
	}
	sq := func(names ...string) []int {
		var r []int
		for _, n := range names {
			r = append(r, name[n])
		}
		return r
	}
	seqs = append(seqs,
		sq("new1", "new2", "report1", "report2", "c1-key-of-2", "report2", "restart", "report2", "new1", "report1"),
		sq("new1", "new2", "c2-key-of-1", "report1", "restart", "report1", "dup1"),
		sq("new1", "fresh3-key-of-1", "report1", "restart", "report1"),
		sq("new1", "report1", "c1-cap", "restart", "restart", "new1", "report1"),
		sq("new1", "new2", "report1", "report2", "c1-newkey", "restart", "report2"),
		sq("new1", "new2", "report1", "resigned1", "restart", "report1", "restart", "dup1"),
		sq("resigned1", "report1", "new1", "restart", "report1"),
		sq("new1", "stolen-sig6", "restart", "stolen-sig6", "dup1", "stolen-sig6"),
	)
	nr := 30
	if c.tier == "thorough" {
		nr = 300
	}
	for i := 0; i < nr; i++ {
		n := 3 + c.rng.Intn(8)
		var q []int
		for j := 0; j < n; j++ {
			q = append(q, c.rng.Intn(len(alpha)))
		}
		seqs = append(seqs, q)
	}
	if !c.part("seq") {
		seqs = nil
	}
	for i, q := range seqs {
		if err := runSeq(fmt.Sprintf("equip/seq/%d", i), q); err != nil {
			return err
		}
	}

	// JSON transport for every finite latitude / longitude class
	if c.part("seq") {
		if err := runFloats(c, s, observe); err != nil {
			return err
		}
	}
	if !c.part("reg") {
		s.Close()
		c.summary["sequences"] = len(seqs)
		c.summary["events"] = t.Events
		c.summary["counts"] = t.Counts
		c.summary["samples"] = t.Sample
		return t.Close()
	}
	// C07: registration attempts
	regSeq := func(name string, f func()) error {
		s.Close()
		s.n++
		s.T.Scenario(name)
		s.NewDir(c.root, fmt.Sprintf("srv%d", s.n))
		s.Tick(1000)
		if err := s.Start(); err != nil {
			return err
		}
		f()
		observe()
		return nil
	}
	honoured := func() {
		// who is honoured now: authorizations, server entries and migration
		// orders signed by each candidate key
		for i, k := range []string{"temp", "gca2", "gca", "x1"} {
			gen := s.BuildAuth(hx.AuthSpec{ID: uint32(20 + i), Key: fmt.Sprintf("h%d", i), Cap: 10, Signer: k})
			s.Authorize(gen)
			// the signature bytes just submitted, pasted onto an authorization for other equipment
			forged := hx.ToRawAuth(s.BuildAuth(hx.AuthSpec{ID: uint32(40 + i), Key: fmt.Sprintf("hf%d", i), Cap: 10}))
			forged.Signature = hx.ToRawAuth(gen).Signature
			s.Authorize(hx.FromRawAuth(forged))
			s.AuthorizeServer(s.BuildServer(hx.ServerSpec{Key: fmt.Sprintf("sv%d", i), Loc: "127.0.0.1", Ports: [3]uint16{1, 1, 1}, Signer: k}))
			// new servers signed by the new GCA (valid), by the current GCA and unsigned (invalid)
			for _, inner := range []string{"gca2", "gca", ""} {
				s.Migrate(s.BuildMigration("h2", "gca2", 77, []hx.ServerSpec{{Key: "nsv", Loc: "10.0.0.1", Ports: [3]uint16{5, 6, 7}, Signer: "gca2"},
					{Key: "nsv2", Loc: "10.0.0.2", Ports: [3]uint16{5, 6, 7}, Signer: inner}}, k))
			}
		}
		// bans of servers that may be known by now, under every signer (also unsigned): only the registered GCA's count
		for _, k := range []string{"", "x1", "temp", "gca2", "gca"} {
			for i := 0; i < 4; i++ {
				s.AuthorizeServer(s.BuildServer(hx.ServerSpec{Key: fmt.Sprintf("sv%d", i), Banned: true, Loc: "127.0.0.1", Ports: [3]uint16{1, 1, 1}, Signer: k}))
			}
			s.QueryServers()
		}
	}
	if err := regSeq("reg/before", func() { honoured() }); err != nil {
		return err
	}
	if err := regSeq("reg/attempts", func() {
		s.Register("gca", "gca", "gca")   // self-signed
		s.Register("gca", "x1", "gca")    // outsider
		s.Register("gca2", "temp", "gca") // signature covers another key
		s.Register("gca", "", "gca")      // unsigned
		honoured()
		s.Register("gca", "temp", "gca") // the valid one
		s.Register("gca", "temp", "gca") // replay
		s.Register("gca2", "temp", "gca2")
		honoured()
		if err := s.Restart(); err != nil {
			return
		}
		s.Register("gca2", "temp", "gca2") // after restart
		s.Register("gca", "temp", "gca")
		honoured()
	}); err != nil {
		return err
	}
	// keys nobody can sign for: 32 bytes that are no point of the curve, and the zero key. A registration of
	// such a key signed by the temporary key is a registration like any other: it succeeds once and is irreversible
	// (also after a restart).
	for {
		var pk glow.PublicKey
		c.rng.Read(pk[:])
		if _, err := glow.PubKeyToAddr(pk); err != nil {
			s.KR.AddPub("offcurve", pk)
			break
		}
	}
	s.KR.AddPub("zero", glow.PublicKey{})
	for _, k := range []string{"offcurve", "zero"} {
		k := k
		if err := regSeq("reg/unusable-key/"+k, func() {
			s.Register(k, "temp", k)
			s.Register("gca", "temp", "gca") // refused: already registered
			honoured()
			if err := s.Restart(); err != nil {
				return
			}
			s.Register("gca", "temp", "gca") // still refused after the restart
			s.Register(k, "temp", k)
			honoured()
			if err := s.Restart(); err != nil {
				return
			}
			s.Register("gca2", "temp", "gca2")
		}); err != nil {
			return err
		}
	}
	// the GCA key file cannot be written (a directory is in its place): a correctly signed registration is refused
	// and leaves nothing behind; afterwards another key registers normally
	if err := regSeq("reg/key-file-unwritable", func() {
		obstacle := filepath.Join(s.Dir, "gcaPubKey.dat")
		os.Mkdir(obstacle, 0755)
		s.T.Emit(hx.J{"a": "DiskFault", "on": true})
		s.Register("gca", "temp", "gca")
		honoured()
		os.Remove(obstacle)
		s.T.Emit(hx.J{"a": "DiskFault", "on": false})
		s.Register("gca2", "temp", "gca2")
		honoured()
		if err := s.Restart(); err != nil {
			return
		}
		honoured()
	}); err != nil {
		return err
	}
	nb := 4
	if c.tier == "thorough" {
		nb = 30
	}
	for b := 0; b < nb; b++ {
		if err := regSeq(fmt.Sprintf("reg/concurrent/%d", b), func() {
			t.Emit(hx.J{"a": "BatchBegin"})
			var wg sync.WaitGroup
			var mu sync.Mutex
			n200 := 0
			for g := 0; g < 8; g++ {
				wg.Add(1)
				k := []string{"gca", "gca2"}[g%2]
				signer := "temp"
				if g >= 6 {
					signer = "x1"
				}
				go func() {
					defer wg.Done()
					st := s.RegisterQuiet(k, signer)
					mu.Lock()
					if st == 200 {
						n200++
					}
					mu.Unlock()
				}()
			}
			wg.Wait()
			t.Emit(hx.J{"a": "BatchEnd", "n200": n200})
			honoured()
		}); err != nil {
			return err
		}
	}
	s.Close()
	c.summary["sequences"] = len(seqs)
	c.summary["events"] = t.Events
	c.summary["counts"] = t.Counts
	c.summary["samples"] = t.Sample
	return t.Close()
}

func runFloats(c *ctx, s *scn, observe func()) error {
	if err := s.fresh("equip/json-floats", 1000); err != nil {
		return err
	}
	floats := []float64{0, math.Copysign(0, -1), 1, -1, 0.1, 1e-320, -1e-320, math.SmallestNonzeroFloat64, math.MaxFloat64, -math.MaxFloat64,
		math.Pi, 1e21, 1e-7, 123456789.123456789, 5e-324, 2.2250738585072014e-308}
	for i := 0; i < 24; i++ {
		floats = append(floats, math.Float64frombits(c.rng.Uint64()))
	}
	id := uint32(10)
	for i, f := range floats {
		if math.IsNaN(f) || math.IsInf(f, 0) {
			continue
		}
		g := floats[(i*7+3)%len(floats)]
		if math.IsNaN(g) || math.IsInf(g, 0) {
			g = 0
		}
		s.Authorize(s.BuildAuth(hx.AuthSpec{ID: id, Key: fmt.Sprintf("f%d", id), Cap: 50, Lat: f, Long: g, Signer: "gca"}))
		id++
	}
	observe()
	if err := s.Restart(); err != nil {
		return fmt.Errorf("restart after float authorizations: %v", err)
	}
	observe()

	return nil
}
