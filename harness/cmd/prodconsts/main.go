// Command prodconsts is built WITHOUT the 'test' tag (production constants,
// system clock) and prints what the specifications need to know about the
// production build.
package main

import (
	"encoding/json"
	"os"
	"time"

	"github.com/glowlabs-org/gca-backend/glow"
	"github.com/glowlabs-org/gca-backend/server"
)

func main() {
	before := time.Now().Unix()
	cur := glow.CurrentTimeslot()
	after := time.Now().Unix()
	out := map[string]interface{}{
		"genesis":      glow.VerifGenesis(),
		"current":      cur,
		"unix_before":  before,
		"unix_after":   after,
		"server":       server.VerifConsts(),
		"public_files": server.PublicFiles,
	}
	json.NewEncoder(os.Stdout).Encode(out)
}
