module verifharness

go 1.22.1

require (
	github.com/ethereum/go-ethereum v1.14.3
	github.com/glowlabs-org/gca-backend v0.0.0
	golang.org/x/tools v0.29.0
)

require (
	github.com/glowlabs-org/errors v0.0.0-20240512103511-f6f59e80d2a3 // indirect
	github.com/glowlabs-org/threadgroup v0.0.0-20240512114128-232ca7c42d0d // indirect
	github.com/holiman/uint256 v1.2.4 // indirect
	golang.org/x/crypto v0.23.0 // indirect
	golang.org/x/mod v0.22.0 // indirect
	golang.org/x/sync v0.10.0 // indirect
)

replace github.com/glowlabs-org/gca-backend => /repo
