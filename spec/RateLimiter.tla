---------------------------- MODULE RateLimiter ----------------------------
(***************************************************************************)
(* glow.RateLimiter: sliding window admission.  One action, Allow, which   *)
(* is a single critical section; the time it works with is read under the  *)
(* mutex, so successive calls see non-decreasing times.                    *)
(* Allow(t, cut): cut = t - rate (passed explicitly so traces can use      *)
(* order preserving ranks of the real clock).                              *)
(***************************************************************************)
EXTENDS Integers, Sequences, FiniteSets, TLC

CONSTANTS Limit, Defects

VARIABLES reqs,   \* the retained admission times (ascending)
          adm,    \* ghost: every admission time ever, with multiplicity (a sequence)
          lastT,  \* ghost: time of the last call
          res     \* result of the last call
vars == <<reqs, adm, lastT, res>>

After(a, b) == IF "afterge" \in Defects THEN a >= b ELSE a > b

Retained(cut) == SelectSeq(reqs, LAMBDA r : After(r, cut))

Allow(t, cut) ==
  /\ t >= lastT
  /\ LET kept == Retained(cut)
         ok == IF "limitle" \in Defects THEN Len(kept) <= Limit ELSE Len(kept) < Limit
     IN  /\ reqs' = IF ok THEN Append(kept, t) ELSE kept
         /\ adm' = IF ok THEN Append(adm, <<t, cut>>) ELSE adm
         /\ res' = ok
  /\ lastT' = t

Init == reqs = <<>> /\ adm = <<>> /\ lastT = 0 /\ res = FALSE

-----------------------------------------------------------------------------
(* C19.  adm[i] = <<time, time - rate>>.  Every half-open window            *)
(* (a - rate, a] ending at an admission a holds at most Limit admissions.   *)
InWindow(i, j) == adm[j][1] > adm[i][2] /\ j <= i   \* admission j inside the window ending at admission i
WindowBound ==
  \A i \in 1..Len(adm) : Cardinality({j \in 1..Len(adm) : InWindow(i, j)}) <= Limit

(* the decision, stated declaratively over the full history: a call at t    *)
(* is admitted iff fewer than Limit admissions lie in (t - rate, t]         *)
Decision(t, cut) == Cardinality({j \in 1..Len(adm) : adm[j][1] > cut}) < Limit
=============================================================================
