CONSTANTS CDefects = {}  MaxEdits = @MaxEdits@  Unfit = @Unfit@
SPECIFICATION MCSpec
CONSTRAINT Bound
INVARIANTS NoEquivocation SentIsStored OutOfRangeRefused
PROPERTIES HistoryStable
CHECK_DEADLOCK FALSE
