----------------------------- MODULE Apa_Timeslot -----------------------------
(* The timeslot lemmas at the real constants, for ALL unix times in          *)
(* [genesis - 2^32, genesis + 2^32) and all pairs of 32-bit values, checked  *)
(* symbolically by Apalache over unbounded integers (length 0: the           *)
(* initial-state predicate ranges over the whole domain).                    *)
EXTENDS Timeslot
VARIABLES
  \* @type: Int;
  t1,
  \* @type: Int;
  t2,
  \* @type: Int;
  now,
  \* @type: Int;
  ts

CInit ==
  /\ Word = 4294967296 /\ SlotLen = 300 /\ Genesis = 1700352000 /\ AcceptW = 432
  /\ TDefects = {}

Init ==
  /\ t1 \in (Genesis - Word) .. (Genesis + Word - 1)
  /\ t2 \in (Genesis - Word) .. (Genesis + Word - 1)
  /\ now \in 0 .. (Word - 1)
  /\ ts \in 0 .. (Word - 1)
Next == UNCHANGED <<t1, t2, now, ts>>

Lemmas ==
  /\ RoundTrip(t1)
  /\ Monotone(t1, t2)
  /\ BeforeGenesisRefused(t1)
  /\ ExactBelowBound(ts)
  /\ WindowCorrect(now, ts)
=============================================================================
