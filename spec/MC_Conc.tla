------------------------------- MODULE MC_Conc -------------------------------
(***************************************************************************)
(* Interleavings at critical-section boundaries (C13).  The multi-section  *)
(* operations of the server are processes with a program counter; between  *)
(* two of their sections any single-section operation of the menu (ban,    *)
(* authorize, report, rotate) may run.                                     *)
(*   collector : ImpactList (device ids under mu) ; then one ImpactSet     *)
(*               section per listed device                                 *)
(*   rotator   : RotPoll (read offset under mu) ; decide ; Rotate          *)
(*   syncer    : SyncRead (under mu) ; SyncServers (under gcaServers.mu)   *)
(* A second copy of every history is run in the sequential order (each     *)
(* multi-section operation without interference) only through the          *)
(* invariants: the state must satisfy the sequential rules at every point. *)
(***************************************************************************)
EXTENDS Server

CONSTANTS MaxOps

VARIABLES cpc, clist,     \* collector: "idle" | "listed", remaining device ids
          rpc, rero,      \* rotator: "idle" | "decided", offset it read
          spc, sdata,     \* sync handler: "idle" | "between", data of its first section
          ops
cvars2 == <<cpc, clist, rpc, rero, spc, sdata, ops>>
allvars == <<vars, cvars2>>

A(i, rest) == [id |-> i, key |-> IF i = 1 THEN "d1" ELSE "d2", cap |-> 100, rest |-> rest,
               sig |-> [by |-> "gca", ok |-> TRUE, tag |-> rest]]

MCInit ==
  /\ now = 0 /\ up = "up"
  /\ gca = [avail |-> TRUE, key |-> "gca"]
  /\ equip = (1 :> A(1, "r")) @@ (2 :> A(2, "r"))
  /\ pkidx = ("d1" :> 1) @@ ("d2" :> 2)
  /\ bans = {} /\ offset = 0
  /\ live = (1 :> EmptyFn) @@ (2 :> EmptyFn)
  /\ impact = (1 :> EmptyFn) @@ (2 :> EmptyFn)
  /\ archive = <<>> /\ servers = <<>> /\ migr = EmptyFn
  /\ disk = [keys |-> "ok", gcafile |-> "gca", auths |-> <<A(1, "r"), A(2, "r")>>, reports |-> <<>>, stats |-> <<>>]
  /\ seen = (1 :> EmptyFn) @@ (2 :> EmptyFn)
  /\ cpc = "idle" /\ clist = {} /\ rpc = "idle" /\ rero = 0 /\ spc = "idle" /\ sdata = 0 /\ ops = 0

Keep(v) == UNCHANGED v
Count == ops' = ops + 1 /\ ops < MaxOps

(* the menu of interfering single-section operations *)
Menu ==
  /\ Count
  /\ \/ \E i \in {1, 2} : Authorize(A(i, "other"))                 \* ban
     \/ \E i \in {1, 2} : Authorize(A(i, "r"))                     \* duplicate / refused
     \/ \E i \in {1, 2} : RecvReport([len |-> 80, id |-> i, ts |-> now, v |-> Small(5),
                                      sig |-> [by |-> IF i = 1 THEN "d1" ELSE "d2", ok |-> TRUE, tag |-> "t"]])
     \/ \E t \in {now + 1, now + WeekLen + 2} : t <= 3 * Window /\ Tick(t)
  /\ Keep(<<cpc, clist, rpc, rero, spc, sdata>>)

(* collector *)
CList == /\ cpc = "idle" /\ Serving /\ cpc' = "listed" /\ clist' = DOMAIN equip
         /\ UNCHANGED vars /\ Keep(<<rpc, rero, spc, sdata, ops>>)
CSet == /\ cpc = "listed" /\ clist # {}
        /\ \E id \in clist :
             /\ clist' = clist \ {id}
             \* the section dereferences the device's array: it must still exist, or be checked for
             /\ Assert(ImpactSetSafe(id, now) \/ "impactnil" \notin Defects, "CollectorNilDeref")
             /\ ImpactSet(id, now, "x")
        /\ cpc' = cpc /\ Keep(<<rpc, rero, spc, sdata, ops>>)
CDone == /\ cpc = "listed" /\ clist = {} /\ cpc' = "idle" /\ UNCHANGED vars
         /\ Keep(<<clist, rpc, rero, spc, sdata, ops>>)

(* rotator *)
RPoll == /\ rpc = "idle" /\ Serving /\ rero' = offset
         /\ rpc' = IF RotationDue(offset, now) THEN "decided" ELSE "idle"
         /\ UNCHANGED vars /\ Keep(<<cpc, clist, spc, sdata, ops>>)
RRot == /\ rpc = "decided" /\ Rotate /\ rpc' = "idle" /\ Keep(<<cpc, clist, rero, spc, sdata, ops>>)

(* sync handler *)
SRead == /\ spc = "idle" /\ Serving /\ spc' = "between" /\ sdata' = SyncData(1)
         /\ UNCHANGED vars /\ Keep(<<cpc, clist, rpc, rero, ops>>)
SServers == /\ spc = "between" /\ spc' = "idle" /\ UNCHANGED vars /\ Keep(<<cpc, clist, rpc, rero, sdata, ops>>)

MCNext == Menu \/ CList \/ CSet \/ CDone \/ RPoll \/ RRot \/ SRead \/ SServers
MCSpec == MCInit /\ [][MCNext]_allvars

(* the sequential rules hold at every point of every interleaving *)
ConcInv == IndexInBounds /\ SelfConsistent /\ ArchiveContiguous /\ SlotIsFunctionOfSet /\ BannedStaysOut
MCView == <<now, up, equip, bans, offset, live, impact, archive, cpc, clist, rpc, rero, spc, DiskView>>
=============================================================================
