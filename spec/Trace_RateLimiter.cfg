CONSTANTS Limit = @Limit@  Defects = {}  DiagLine = @DiagLine@
SPECIFICATION TSpec
POSTCONDITION Accepted
CHECK_DEADLOCK FALSE
