CONSTANTS CDefects = @CDefects@  NServers = 3  MaxRounds = @MaxRounds@  Conc = @Conc@
SPECIFICATION MCSpec
INVARIANTS LockFreeWhenIdle PersistEqualsAdopted
PROPERTIES NeverSelectBanned BannedMonotone EntryFrozenUnlessBan DiskBannedMonotone
CHECK_DEADLOCK FALSE
