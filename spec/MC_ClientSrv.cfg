CONSTANTS CDefects = @CDefects@  NServers = 3  MaxRounds = @MaxRounds@
SPECIFICATION MCSpec
INVARIANTS LockFreeWhenIdle PersistEqualsAdopted
PROPERTIES BannedMonotone EntryFrozenUnlessBan DiskBannedMonotone
CHECK_DEADLOCK FALSE
