CONSTANTS MaxBytes = @MaxBytes@  MaxLine = 3  Defects = @Defects@
 Expiry = 2  MaxTime = @MaxTime@  MaxOps = @MaxOps@
SPECIFICATION MCSpec
INVARIANTS SizeExact SizeBounded NoPanic LinesCut TimesSorted
CHECK_DEADLOCK FALSE
