CONSTANTS WeekLen = 2  Accept = 1  RotTrigger = 3  CatchUpBound = 4  CapPct = 135
 Defects = {}
 MaxSeen = @MaxSeen@
SPECIFICATION MCSpec
VIEW MCView
INVARIANTS SlotIsFunctionOfSet IndexInBounds SelfConsistent
PROPERTIES BanSticky FirstValueKept
CHECK_DEADLOCK FALSE
