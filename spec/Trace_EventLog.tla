--------------------------- MODULE Trace_EventLog ---------------------------
(* Trace validation of the real glow.EventLogger against EventLog.tla.  One *)
(* trace per logger configuration; MaxBytes / MaxLine come from the .cfg.   *)
EXTENDS EventLog, Json

CONSTANT DiagLine
VARIABLE l
tvars == <<vars, l>>

Trace == ndJsonDeserialize("trace.ndjson")
Ev == Trace[l]

UnLines(p) == [k \in {p[i][1] : i \in DOMAIN p} |->
                 p[CHOOSE i \in DOMAIN p : p[i][1] = k][2]]

Match ==
  /\ lines' = UnLines(Ev.post.lines)
  /\ size' = Ev.post.size
  /\ Ev.panic = ""

Inv == SizeExact' /\ SizeBounded' /\ NoPanic' /\ LinesCut' /\ TimesSorted'

TCfg == Ev.a = "Cfg" /\ Ev.max = MaxBytes /\ Ev.maxline = MaxLine /\ UNCHANGED vars

TPrintf ==
  /\ Ev.a = "Printf"
  /\ Printf(Ev.line, Ev.t, Ev.cut)
  /\ Match
  \* NewestKept
  /\ (Sz(Trunc(Ev.line)) <= MaxBytes => Trunc(Ev.line) \in DOMAIN lines')

TExpire == Ev.a = "Expire" /\ Expire(Ev.cut) /\ Match

TDump ==
  /\ Ev.a = "Dump" /\ Dump(Ev.cut) /\ Match
  /\ DumpOrderOK(Ev.order, lines')

Diag ==
  IF l = DiagLine
  THEN PrintT(<<"DIAG line", l, Ev.a, "state before", lines, size, "impl after", UnLines(Ev.post.lines), Ev.post.size, Ev.panic>>)
  ELSE TRUE

TNext ==
  /\ l <= Len(Trace) /\ l' = l + 1
  /\ Diag
  /\ (TCfg \/ TPrintf \/ TExpire \/ TDump)
  /\ Inv

TSpec == Init /\ l = 1 /\ [][TNext]_tvars
Accepted == TLCGet("stats").diameter - 1 = Len(Trace)
=============================================================================
