----------------------------- MODULE Trace_Sync -----------------------------
(* Validation of the client's reply parser (staticServerSync) on genuine and *)
(* tampered replies.                                                         *)
EXTENDS Client, Json
CONSTANT DiagLine
VARIABLE l
Trace == ndJsonDeserialize("trace.ndjson")
Ev == Trace[l]

USig(g) == [by |-> g.by, ok |-> g.ok, tag |-> g.tag]
UServer(s) == [key |-> s.key, banned |-> s.banned, loc |-> s.loc, ports |-> s.ports, sig |-> USig(s.sig)]
UServers(x) == [i \in DOMAIN x |-> UServer(x[i])]
UReply(r) == [len |-> r.len, key |-> r.key, offset |-> r.offset, bits |-> {r.bits[i] : i \in DOMAIN r.bits},
              mig |-> [present |-> r.mig.present, newgca |-> r.mig.newgca, newid |-> r.mig.newid, sig |-> USig(r.mig.sig)],
              servers |-> UServers(r.servers), listok |-> r.listok, time |-> r.time, sig |-> USig(r.sig)]
UCtx(c) == [server |-> c.server, gca |-> c.gca, dev |-> c.dev]

(* strip the signature from a server entry: what the parser returns *)
Plain(x) == [i \in DOMAIN x |-> [key |-> x[i].key, banned |-> x[i].banned, loc |-> x[i].loc, ports |-> x[i].ports]]

TParse ==
  /\ Ev.a = "Parse"
  /\ Ev.res.panic = ""
  /\ LET r == UReply(Ev.reply) ctx == UCtx(Ev.ctx) IN
     /\ Ev.res.ok = (ParseOutcome(r, ctx) = "ok")
     /\ (ParseOutcome(r, ctx) = "ok") = Authentic(r, ctx)
     /\ Ev.res.ok =>
          /\ Ev.res.offset = r.offset
          /\ {Ev.res.bits[i] : i \in DOMAIN Ev.res.bits} = r.bits
          /\ Ev.res.newgca = (IF r.mig.present THEN r.mig.newgca ELSE "zero")
          /\ Ev.res.newid = r.mig.newid
          /\ Plain(UServers(Ev.res.servers)) = Plain(r.servers)
TRefused ==   \* unknown device id: the server closes after one zero byte
  /\ Ev.a = "ParseRefused" /\ Ev.res.panic = "" /\ ~Ev.res.ok
TNext ==
  /\ l <= Len(Trace) /\ l' = l + 1
  /\ (IF l = DiagLine THEN PrintT(<<"DIAG", l, "outcome", ParseOutcome(UReply(Ev.reply), UCtx(Ev.ctx)), Ev>>) ELSE TRUE)
  /\ (TParse \/ TRefused)
  /\ UNCHANGED <<cvars, svars>>
TSpec == CInit /\ SInit /\ l = 1 /\ [][TNext]_<<cvars, svars, l>>
Accepted == TLCGet("stats").diameter - 1 = Len(Trace)
=============================================================================
