CONSTANTS EDefects = @EDefects@  MaxRows = @MaxRows@
INIT Init
NEXT Next
INVARIANTS NoPanic Shape
CHECK_DEADLOCK FALSE
