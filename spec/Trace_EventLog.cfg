CONSTANTS MaxBytes = @MaxBytes@  MaxLine = @MaxLine@  Defects = {}
 DiagLine = @DiagLine@
SPECIFICATION TSpec
POSTCONDITION Accepted
CHECK_DEADLOCK FALSE
