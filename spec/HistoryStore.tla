---------------------------- MODULE HistoryStore ----------------------------
(* The client's history store at its interface (staticSaveReading /          *)
(* staticLoadReading), for 32-bit timeslots: keys are two 16-bit limbs       *)
(* <<hi, lo>>, values are signed 32-bit integers, 0 = empty.                 *)
EXTENDS Integers, Sequences, TLC, Json
CONSTANT DiagLine
VARIABLES store, origin, l
Trace == ndJsonDeserialize("trace.ndjson")
Ev == Trace[l]
LT(a, b) == a[1] < b[1] \/ (a[1] = b[1] /\ a[2] < b[2])
Get(k) == IF k \in DOMAIN store THEN store[k] ELSE 0

TOpen == Ev.a = "Open" /\ origin' = Ev.origin /\ store' = <<>>
(* Save: before the origin refused; same value no-op; different value refused; else stored *)
TSave ==
  /\ Ev.a = "Save"
  /\ IF LT(Ev.k, origin) THEN Ev.err /\ UNCHANGED store
     ELSE IF Get(Ev.k) = Ev.v THEN ~Ev.err /\ UNCHANGED store
     ELSE IF Get(Ev.k) # 0 THEN Ev.err /\ UNCHANGED store
     ELSE ~Ev.err /\ store' = [x \in DOMAIN store \cup {Ev.k} |-> IF x = Ev.k THEN Ev.v ELSE store[x]]
  /\ UNCHANGED origin
(* Load: a stored reading is returned unchanged by every later read *)
TLoad ==
  /\ Ev.a = "Load"
  /\ ~Ev.err
  /\ Ev.v = (IF LT(Ev.k, origin) THEN 0 ELSE Get(Ev.k))
  /\ UNCHANGED <<store, origin>>
(* The report loop (saves) and a sync round (loads) use the store at the same time, without a lock:  *)
(* every cell is written once with the value f of its own timeslot (the driver's choice), so a load  *)
(* returns that value or "empty", re-saving it never fails, saving another value afterwards always  *)
(* fails, and at the end every cell holds its own value.                                            *)
TConc ==
  /\ Ev.a \in {"ConcLoad", "ConcSaveOwn", "ConcSaveOther", "ConcFinal"}
  /\ ~Ev.panic
  /\ CASE Ev.a = "ConcLoad" -> ~Ev.err /\ Ev.v \in {0, Ev.f}
       [] Ev.a = "ConcSaveOwn" -> ~Ev.err
       [] Ev.a = "ConcSaveOther" -> Ev.err
       [] Ev.a = "ConcFinal" -> ~Ev.err /\ Ev.v = Ev.f
  /\ UNCHANGED <<store, origin>>
TNext ==
  /\ l <= Len(Trace) /\ l' = l + 1
  /\ (IF l = DiagLine THEN PrintT(<<"DIAG", l, Ev, "store", store, "origin", origin>>) ELSE TRUE)
  /\ (TOpen \/ TSave \/ TLoad \/ TConc)
TSpec == store = <<>> /\ origin = <<0, 0>> /\ l = 1 /\ [][TNext]_<<store, origin, l>>
Accepted == TLCGet("stats").diameter - 1 = Len(Trace)
=============================================================================
