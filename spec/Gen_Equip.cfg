CONSTANTS WeekLen = 2  Accept = 1  RotTrigger = 3  CatchUpBound = 4  CapPct = 135
 Defects = {}  MaxAuths = 99  MaxReports = 99  GenDepth = @GenDepth@
SPECIFICATION GSpec
INVARIANT GenEmit
CHECK_DEADLOCK FALSE
