CONSTANTS WeekLen = 2016  Accept = 432  RotTrigger = 3200  CatchUpBound = 4000  CapPct = 135
 Defects = {}
 Strict = {"Start", "Register", "Authorize", "RecvReport", "Rotate", "Close"}
 InvSel = {"StartAlwaysOK", "StillRegistrable", "ArchiveContiguous", "IndexInBounds", "SelfConsistent", "RestartEquiv"}
 DiagLine = @DiagLine@
SPECIFICATION TSpec
POSTCONDITION Accepted
CHECK_DEADLOCK FALSE
