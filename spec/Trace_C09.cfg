CONSTANTS CDefects = {}  DiagLine = @DiagLine@
 CInvSel = {"NoEquivocation", "SentIsStored", "HistoryStable"}
SPECIFICATION TSpec
POSTCONDITION Accepted
CHECK_DEADLOCK FALSE
