CONSTANTS WeekLen = 2  Accept = 1  RotTrigger = 3  CatchUpBound = 4  CapPct = 135
 Defects = @Defects@
 MaxOps = @MaxOps@
SPECIFICATION MCSpec
VIEW MCView
INVARIANTS ConcInv
PROPERTIES ArchiveImmutable
CHECK_DEADLOCK FALSE
