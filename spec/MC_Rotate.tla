----------------------------- MODULE MC_Rotate -----------------------------
(* Exhaustive check of week rotation, archived statistics and statistics    *)
(* queries (C03): reports, a ban, clock jumps of every size (no rotation,   *)
(* one, several), the background rotation and the start-up catch-up,        *)
(* restarts, and queries for every week class with and without the         *)
(* insert_false_negatives parameter.                                       *)
EXTENDS Server

CONSTANTS MaxNow, MaxReports

A1 == [id |-> 1, key |-> "d1", cap |-> 100, rest |-> "r",
       sig |-> [by |-> "gca", ok |-> TRUE, tag |-> "a1"]]
A2 == [id |-> 2, key |-> "d2", cap |-> 100, rest |-> "r",
       sig |-> [by |-> "gca", ok |-> TRUE, tag |-> "a2"]]
A2x == [A2 EXCEPT !.rest = "other", !.sig.tag = "a2x"]

Datagrams ==
  [len : {80}, id : {1, 2}, ts : {t \in (now - Accept) .. (now + Accept) : t >= 0},
   v : {Small(5), Small(200)}, sig : {[by |-> k, ok |-> TRUE, tag |-> "t"] : k \in {"d1", "d2"}}]

MCInit ==
  /\ now = 0 /\ up = "up"
  /\ gca = [avail |-> TRUE, key |-> "gca"]
  /\ equip = (1 :> A1) @@ (2 :> A2)
  /\ pkidx = ("d1" :> 1) @@ ("d2" :> 2)
  /\ bans = {} /\ offset = 0
  /\ live = (1 :> EmptyFn) @@ (2 :> EmptyFn)
  /\ impact = (1 :> EmptyFn) @@ (2 :> EmptyFn)
  /\ archive = <<>> /\ servers = <<>> /\ migr = EmptyFn
  /\ disk = [keys |-> "ok", gcafile |-> "gca", auths |-> <<A1, A2>>,
             reports |-> <<>>, stats |-> <<>>]
  /\ seen = (1 :> EmptyFn) @@ (2 :> EmptyFn)

(* RotationExact, stated pointwise and independently of the operators the   *)
(* action is written with: the new archive entry holds exactly the first    *)
(* half, the live window keeps exactly the second half.                     *)
ValAt(f, i) == IF i \in DOMAIN f THEN f[i] ELSE Zero
RateAt(f, i) == IF i \in DOMAIN f THEN f[i] ELSE "0"
RotationExact ==
  LET rec == archive'[Len(archive')] IN
  /\ Len(archive') = Len(archive) + 1
  /\ rec.off = offset /\ offset' = offset + WeekLen /\ rec.sigok
  /\ Cardinality(rec.devs) = Cardinality(DOMAIN live)
  /\ \A id \in DOMAIN live :
       \E d \in rec.devs :
         /\ d.key = equip[id].key
         /\ \A i \in 0 .. (WeekLen - 1) :
              /\ ValAt(d.out, i) = Slot(live, id, offset + i).v
              /\ RateAt(d.imp, i) = Get(impact[id], offset + i, "0")
         /\ DOMAIN d.out \subseteq 0 .. (WeekLen - 1)
  /\ \A id \in DOMAIN live :
       /\ \A t \in SecondHalf(offset) : Slot(live', id, t) = Slot(live, id, t)
       /\ DOMAIN live'[id] \subseteq SecondHalf(offset)
       /\ impact'[id] = Only(impact[id], SecondHalf(offset))
  /\ Len(disk'.stats) = Len(disk.stats) + 1 /\ disk'.stats[Len(disk'.stats)] = rec

Rot == Rotate /\ Assert(RotationExact, "RotationExact")

(* a statistics query; with the parameter the reply is post-processed, the  *)
(* server state must stay as it is                                          *)
Query(tso, neg) ==
  /\ Serving
  /\ IF neg /\ "archivealias" \in Defects /\ tso < offset /\ tso % WeekLen = 0
     THEN /\ archive' = [archive EXCEPT ![tso \div WeekLen + 1].devs =
                           {[d EXCEPT !.out = [i \in DOMAIN d.out |-> [c |-> "g", n |-> 9]]] : d \in @}]
          /\ UNCHANGED <<now, up, gca, equip, pkidx, bans, offset, live, impact,
                         servers, migr, disk, seen>>
     ELSE UNCHANGED vars

(* C03 QueryAnswer *)
QueryAnswer ==
  /\ \A i \in 1 .. Len(archive) :
        LET a == StatsAnswer((i - 1) * WeekLen) IN
        a.off = (i - 1) * WeekLen /\ a.devs = archive[i].devs /\ a.sigok
  /\ \A tso \in {offset, offset + WeekLen} :
        LET a == StatsAnswer(tso) IN
        /\ a.off = tso /\ a.sigok
        /\ {d.key : d \in a.devs} = {equip[id].key : id \in DOMAIN equip}
        /\ \A id \in DOMAIN equip : \E d \in a.devs :
              d.key = equip[id].key /\
              \A i \in 0 .. (WeekLen - 1) : ValAt(d.out, i) = Slot(live, id, tso + i).v
  /\ StatsAnswer(offset + Window) = Refused
  /\ StatsAnswer(offset + 1) = Refused

MCNext ==
  \/ \E d \in Datagrams : (Acceptable(d) => Len(disk.reports) < MaxReports) /\ RecvReport(d)
  \/ \E j \in {1, WeekLen, Window + 1, 5 * WeekLen} : now + j <= MaxNow /\ Tick(now + j)
  \/ (up = "up" /\ RotationDue(offset, now) /\ Rot)
  \/ (up = "catchup" /\ CatchUpDue(offset, now) /\ Rot)
  \/ Authorize(A2x)
  \/ (Serving /\ now \in DOMAIN (0 :> 0 @@ 2 :> 0 @@ 5 :> 0) /\ ImpactSet(1, now, "ir"))
  \/ \E tso \in {0, WeekLen, offset - WeekLen, offset, offset + 1, offset + WeekLen, offset + Window} :
       \E neg \in BOOLEAN : tso >= 0 /\ Query(tso, neg)
  \/ Close \/ StartLoad \/ StartDone
  \/ Crash

MCSpec == MCInit /\ [][MCNext]_vars
MCView == <<now, up, offset, live, impact, archive, bans, equip, DiskView>>
=============================================================================
