CONSTANTS ArchiveOrder <- Order  MaxBursts = @MaxBursts@
SPECIFICATION Spec
INVARIANTS RecordAlignedPrefix DependencyClosed
CHECK_DEADLOCK FALSE
