--------------------------- MODULE MC_RateLimiter ---------------------------
(* All arrival sequences: non-decreasing integer times, every (limit, rate). *)
EXTENDS RateLimiter
CONSTANTS Rate, MaxTime, MaxCalls
VARIABLE calls
mvars == <<vars, calls>>

MCInit == Init /\ calls = 0
MCNext ==
  /\ calls < MaxCalls /\ calls' = calls + 1
  /\ \E t \in lastT .. MaxTime :
       /\ Allow(t, t - Rate)
       \* NoStarvation and admission exactness against the whole history
       /\ Assert(res' = Decision(t, t - Rate), "DecisionMatchesHistory")
MCSpec == MCInit /\ [][MCNext]_mvars
=============================================================================
