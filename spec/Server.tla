------------------------------- MODULE Server -------------------------------
(***************************************************************************)
(* The GCA server of gca-backend, at the granularity of its critical       *)
(* sections: one action per section of code that runs under GCAServer.mu   *)
(* (or gcaServers.mu), with the persistent files as part of the state.     *)
(*                                                                         *)
(* The module is parametric in the constants the code bakes in, so that    *)
(* the same actions are model checked exhaustively with a two-slot week    *)
(* (MC_*.tla) and used at the real constants for trace validation          *)
(* (Trace_Server.tla) and behaviour generation.                            *)
(*                                                                         *)
(* Data abstraction                                                        *)
(*  - keys are names (strings); signatures are abstract (Dolev-Yao):       *)
(*      [by |-> key name | "none", ok |-> BOOLEAN, tag |-> identity]       *)
(*    ok means "made over exactly the fields of the object that carries    *)
(*    it, with that object's type prefix"; tag is the identity of the      *)
(*    signature bytes (two signatures are the same bytes iff same tag).    *)
(*  - 64-bit power values are [c |-> class, n |-> Int]: "s" small (n is    *)
(*    the value, < 2^30), "h" huge non-negative (2^30 .. 2^63-2), "m" the  *)
(*    single value 2^63-1, "g" negative encoding (>= 2^63); for the big    *)
(*    classes n only carries identity.                                     *)
(*  - per-slot data is sparse: a function from absolute timeslots to       *)
(*    non-empty records.                                                   *)
(***************************************************************************)
EXTENDS Integers, Sequences, FiniteSets, TLC, SequencesExt, FiniteSetsExt

CONSTANTS
  WeekLen,       \* 2016  slots per week
  Accept,        \* 432   acceptance half width (72 h)
  RotTrigger,    \* 3200  background rotation when now - offset > RotTrigger
  CatchUpBound,  \* 4000  start-up rotation while now - offset >= CatchUpBound
  CapPct,        \* 135   MaxCapacityBuffer
  Defects        \* names of known deviations of the code the model follows
                 \* when switched on (used to demonstrate that an invariant
                 \* is not vacuous); {} is the repaired behaviour.

Window == 2 * WeekLen

VARIABLES
  now,      \* current timeslot (environment)
  up,       \* "down" | "failed" | "catchup" (files loaded, UDP live, start-up
            \* rotations in progress) | "up" (all listeners live)
  gca,      \* [avail, key]   registered GCA key
  equip,    \* id -> authorization
  pkidx,    \* key -> id (public key lookup)
  bans,     \* set of banned ids
  offset,   \* first timeslot of the live window
  live,     \* id -> (timeslot -> [v, sig]) stored reports, sparse
  impact,   \* id -> (timeslot -> rate bits), sparse, volatile
  archive,  \* sequence of archived weeks
  servers,  \* sequence of authorized servers (volatile, own mutex)
  migr,     \* device key -> migration order (volatile)
  disk,     \* [keys, gcafile, auths, reports, stats] persistent files
  seen      \* ghost: id -> (timeslot -> set of acceptable reports delivered)

mem  == <<gca, equip, pkidx, bans, offset, live, impact, archive, servers, migr>>
vars == <<now, up, gca, equip, pkidx, bans, offset, live, impact, archive,
          servers, migr, disk, seen>>

-----------------------------------------------------------------------------
(* sparse functions *)
Get(f, k, d) == IF k \in DOMAIN f THEN f[k] ELSE d
Put(f, k, v) == [x \in DOMAIN f \cup {k} |-> IF x = k THEN v ELSE f[x]]
Del(f, k)    == [x \in DOMAIN f \ {k} |-> f[x]]
Only(f, S)   == [x \in DOMAIN f \cap S |-> f[x]]
EmptyFn      == <<>>

(* values *)
Small(n) == [c |-> "s", n |-> n]
Zero == Small(0)
One  == Small(1)
Sentinel(v) == v = Zero \/ v = One
NonNegative(v) == v.c \in {"s", "h", "m"}

(* signatures *)
NoSig == [by |-> "none", ok |-> FALSE, tag |-> "none"]
Valid(sig, key) == sig.ok /\ sig.by = key /\ key # "none"

NoKey == "none"
TempKey == "temp"
ServerKey == "srv"

EmptySlot == [v |-> Zero, sig |-> NoSig]
Slot(lv, id, ts) == Get(lv[id], ts, EmptySlot)

(* The capacity rule.  The limit is computed with the code's integer        *)
(* arithmetic; capacities in the model are small so no overflow is modelled.*)
Limit(cap) == (cap * CapPct) \div 100
OverCap(v, cap) ==
  \/ v.c = "s" /\ v.n > Limit(cap)
  \/ v.c = "h"
  \/ v.c = "m" /\ "maxint64" \notin Defects

-----------------------------------------------------------------------------
(* Report intake: managedHandleEquipmentReport -> parseReport ->            *)
(* integrateReport -> saveEquipmentReport, one critical section.            *)
(* A datagram d is [len, id, ts, v, sig]; for len # 80 the other fields are *)
(* meaningless.                                                             *)

(* The declarative acceptance condition of property C01. *)
Acceptable(d) ==
  /\ d.len = 80
  /\ d.id \in DOMAIN equip
  /\ d.id \notin bans
  /\ Valid(d.sig, equip[d.id].key)
  /\ d.ts >= now - Accept /\ d.ts <= now + Accept
  /\ d.ts >= offset /\ d.ts < offset + Window
  /\ ~Sentinel(d.v)

(* integrateReport as a function on [live, reports]: the window guards,    *)
(* the banned and identical-replay short cuts, first store / equivocation, *)
(* the capacity rule, the disk append.  Used by report intake and by the   *)
(* start-up replay of the report file.                                     *)
UpperGuardOK(ts, off) ==
  IF "idx4032" \in Defects THEN ts <= off + Window ELSE ts < off + Window

Integrate(st, r, eq, off) ==
  IF r.ts < off \/ ~UpperGuardOK(r.ts, off) THEN st
  ELSE
    LET cur == Slot(st.live, r.id, r.ts)
        rep == [v |-> r.v, sig |-> r.sig]
    IN  IF cur.v = One THEN st
        ELSE IF cur = rep THEN st
        ELSE
          LET stored == IF cur.v = Zero THEN rep ELSE [cur EXCEPT !.v = One]
              fin == IF OverCap(r.v, eq[r.id].cap)
                     THEN [stored EXCEPT !.v = One] ELSE stored
          IN  [live    |-> [st.live EXCEPT ![r.id] = Put(@, r.ts, fin)],
               reports |-> Append(st.reports, r)]

(* An index outside the array is a panic of the process in the code. *)
IndexOK(ts, off) == ts - off >= 0 /\ ts - off < Window

(* The operational order of checks, as in the code. *)
RecvStep(d) ==
  IF d.len # 80 THEN "badlen"
  ELSE IF d.id \notin DOMAIN equip THEN "unknown"
  ELSE IF ~Valid(d.sig, equip[d.id].key) THEN "badsig"
  ELSE IF d.ts < now - Accept \/ d.ts > now + Accept THEN "time"
  ELSE IF Sentinel(d.v) THEN "sentinel"
  ELSE IF d.ts < offset \/ ~UpperGuardOK(d.ts, offset) THEN "window"
  ELSE "integrate"

AsReport(d) == [id |-> d.id, ts |-> d.ts, v |-> d.v, sig |-> d.sig]

Running == up \in {"catchup", "up"}
Serving == up = "up"

RecvReport(d) ==
  /\ Running
  /\ IF RecvStep(d) = "integrate"
     THEN LET st == Integrate([live |-> live, reports |-> disk.reports],
                              AsReport(d), equip, offset)
          IN  /\ live' = st.live
              /\ disk' = [disk EXCEPT !.reports = st.reports]
              /\ seen' = [seen EXCEPT ![d.id] =
                            Put(@, d.ts, Get(@, d.ts, {}) \cup
                                   {[v |-> d.v, sig |-> d.sig]})]
     ELSE UNCHANGED <<live, disk, seen>>
  /\ UNCHANGED <<now, up, gca, equip, pkidx, bans, offset, impact, archive,
                 servers, migr>>

-----------------------------------------------------------------------------
(* GCA registration: registerGCA -> saveGCAKey (file, then memory). *)
RegisterOK(k, sig) == ~gca.avail /\ Valid(sig, TempKey)

Register(k, sig) ==
  /\ Serving
  /\ IF RegisterOK(k, sig)
     THEN /\ gca' = [avail |-> TRUE, key |-> k]
          /\ disk' = [disk EXCEPT !.gcafile = k]
     ELSE UNCHANGED <<gca, disk>>
  /\ UNCHANGED <<now, up, equip, pkidx, bans, offset, live, impact, archive,
                 servers, migr, seen>>

-----------------------------------------------------------------------------
(* Equipment authorization: managedAuthorizeEquipment -> saveEquipment.     *)
(* An authorization a is [id, key, cap, rest, sig].                         *)

AuthOutcome(a) ==
  IF ~gca.avail THEN "noGCA"
  ELSE IF ~Valid(a.sig, gca.key) THEN "badsig"
  ELSE IF a.id \in bans THEN "banned"
  ELSE IF a.id \in DOMAIN equip /\ equip[a.id] = a THEN "same"
  ELSE IF a.id \notin DOMAIN equip
       THEN (IF a.key \in DOMAIN pkidx /\ "dupkey" \notin Defects
             THEN "keyused" ELSE "new")
  ELSE "conflict"

(* which index entry a ban removes: the banned device's own key (repaired) *)
(* or the key named by the conflicting authorization (defect "bankey").    *)
BanKey(a) == IF "bankey" \in Defects THEN a.key ELSE equip[a.id].key

(* The effect of saveEquipment / the load rule on the in-memory maps. *)
ApplyAuth(st, a) ==
  \* st = [equip, pkidx, bans, live, impact]; the load rule of loadEquipment
  IF a.id \in st.bans THEN st
  ELSE IF a.id \in DOMAIN st.equip /\ st.equip[a.id] = a THEN st
  ELSE IF a.id \notin DOMAIN st.equip /\ a.key \in DOMAIN st.pkidx
          /\ "dupkey" \notin Defects THEN st
  ELSE IF a.id \notin DOMAIN st.equip
  THEN [st EXCEPT !.equip  = Put(@, a.id, a),
                  !.pkidx  = Put(@, a.key, a.id),
                  !.live   = Put(@, a.id, EmptyFn),
                  !.impact = Put(@, a.id, EmptyFn)]
  ELSE [st EXCEPT !.equip  = Del(@, a.id),
                  !.pkidx  = Del(@, IF "bankey" \in Defects THEN a.key
                                    ELSE st.equip[a.id].key),
                  !.live   = Del(@, a.id),
                  !.impact = Del(@, a.id),
                  !.bans   = @ \cup {a.id}]

Authorize(a) ==
  /\ Serving
  /\ IF AuthOutcome(a) \in {"new", "conflict"}
     THEN LET st == ApplyAuth([equip |-> equip, pkidx |-> pkidx, bans |-> bans,
                               live |-> live, impact |-> impact], a)
          IN  /\ equip' = st.equip /\ pkidx' = st.pkidx /\ bans' = st.bans
              /\ live' = st.live /\ impact' = st.impact
              /\ disk' = [disk EXCEPT !.auths = Append(@, a)]
              /\ seen' = IF AuthOutcome(a) = "new" THEN Put(seen, a.id, EmptyFn)
                         ELSE Del(seen, a.id)
     ELSE UNCHANGED <<equip, pkidx, bans, live, impact, disk, seen>>
  /\ UNCHANGED <<now, up, gca, offset, archive, servers, migr>>

-----------------------------------------------------------------------------
(* Week rotation: migrateReports (one critical section): build and sign the *)
(* record of the first half, append it to memory and disk, shift halves.    *)

FirstHalf(off)  == off .. (off + WeekLen - 1)
SecondHalf(off) == (off + WeekLen) .. (off + Window - 1)

(* published value of a slot, relative index *)
Outputs(f, off) == [i \in {ts - off : ts \in DOMAIN f} |-> f[i + off].v]
Rates(f, off)   == [i \in {ts - off : ts \in DOMAIN f} |-> f[i + off]]

(* buildDeviceStats for the half starting at tso (tso = offset or          *)
(* offset + WeekLen): one entry per device present in the report map.      *)
BuildDevs(lv, im, eq, tso) ==
  { [key |-> eq[id].key,
     out |-> Outputs(Only(lv[id], tso .. (tso + WeekLen - 1)), tso),
     imp |-> Rates(Only(im[id], tso .. (tso + WeekLen - 1)), tso)]
    : id \in DOMAIN lv }

WeekRecord(lv, im, eq, tso) ==
  [off |-> tso, devs |-> BuildDevs(lv, im, eq, tso), sigok |-> TRUE]

RotateState(st) ==
  \* st = [live, impact, offset, archive, stats, equip]
  LET rec == WeekRecord(st.live, st.impact, st.equip, st.offset)
  IN  [st EXCEPT
        !.archive = Append(@, rec),
        !.stats   = Append(@, rec),
        !.live    = [id \in DOMAIN st.live |->
                       Only(st.live[id], SecondHalf(st.offset))],
        !.impact  = [id \in DOMAIN st.impact |->
                       Only(st.impact[id], SecondHalf(st.offset))],
        !.offset  = @ + WeekLen]

CurState == [live |-> live, impact |-> impact, offset |-> offset,
             archive |-> archive, stats |-> disk.stats, equip |-> equip]

Rotate ==
  /\ Running
  /\ LET st == RotateState(CurState)
     IN  /\ live' = st.live /\ impact' = st.impact /\ offset' = st.offset
         /\ archive' = st.archive
         /\ disk' = [disk EXCEPT !.stats = st.stats]
         /\ seen' = [id \in DOMAIN seen |-> Only(seen[id], SecondHalf(offset))]
  /\ UNCHANGED <<now, up, gca, equip, pkidx, bans, servers, migr>>

(* the background thread's decision *)
RotationDue(ero, t) == t - ero > RotTrigger
CatchUpDue(ero, t)  == t - ero >= CatchUpBound

-----------------------------------------------------------------------------
(* Impact data collector: second critical section, one device. *)
ImpactSet(id, ts, bits) ==
  /\ Serving
  /\ IF ts >= offset /\ ts - offset < Window /\
        (id \in DOMAIN impact \/ "impactnil" \in Defects)
     THEN impact' = [impact EXCEPT ![id] = Put(@, ts, bits)]
     ELSE UNCHANGED impact
  /\ UNCHANGED <<now, up, gca, equip, pkidx, bans, offset, live, archive,
                 servers, migr, disk, seen>>

(* the collector dereferences the device's array: absent device = panic *)
ImpactSetSafe(id, ts) ==
  (ts >= offset /\ ts - offset < Window) => id \in DOMAIN impact

-----------------------------------------------------------------------------
(* Weekly statistics query (AllDeviceStatsHandler, the locked part).        *)
(* Returns the record served; "refused" for misaligned / future weeks.      *)
Refused == [off |-> -1, devs |-> {}, sigok |-> FALSE]

StatsAnswer(tso) ==
  IF tso % WeekLen # 0 THEN Refused
  ELSE IF tso < offset THEN
         (IF tso \div WeekLen + 1 <= Len(archive)
          THEN [off |-> archive[tso \div WeekLen + 1].off,
                devs |-> archive[tso \div WeekLen + 1].devs,
                sigok |-> archive[tso \div WeekLen + 1].sigok]
          ELSE Refused)
  ELSE IF tso > offset + WeekLen THEN Refused
  ELSE WeekRecord(live, impact, equip, tso)

-----------------------------------------------------------------------------
(* Sync reply, first critical section: the bitfield of the device's window. *)
SyncBits(id) ==
  IF id \in DOMAIN live /\ id \in DOMAIN equip
  THEN {ts - offset : ts \in {t \in DOMAIN live[id] : live[id][t].v # Zero}}
  ELSE {}
SyncKnown(id) == id \in DOMAIN live /\ id \in DOMAIN equip

(* The reply of managedHandleSyncConn, built in two critical sections (the *)
(* device's data under mu, then the server list under gcaServers.mu).      *)
(* Unknown devices get a refusal.                                          *)
NoMigration == [present |-> FALSE, newgca |-> NoKey, newid |-> 0, sig |-> NoSig]
SyncData(id) ==      \* first section
  [known  |-> SyncKnown(id),
   key    |-> IF id \in DOMAIN equip THEN equip[id].key ELSE NoKey,
   offset |-> offset,
   bits   |-> SyncBits(id),
   mig    |-> IF id \in DOMAIN equip /\ equip[id].key \in DOMAIN migr
              THEN [present |-> TRUE, newgca |-> migr[equip[id].key].newgca,
                    newid |-> migr[equip[id].key].newid, sig |-> migr[equip[id].key].sig]
              ELSE NoMigration,
   migservers |-> IF id \in DOMAIN equip /\ equip[id].key \in DOMAIN migr
                  THEN migr[equip[id].key].servers ELSE <<>>]

-----------------------------------------------------------------------------
(* Authorized servers (gcaServers.mu). A server entry is                    *)
(* [key, banned, loc, ports, sig].                                          *)
ServerIdx(k) == {i \in 1..Len(servers) : servers[i].key = k}

AuthorizeServer(as) ==
  /\ Serving
  /\ IF ~Valid(as.sig, gca.key) THEN UNCHANGED servers
     ELSE IF ServerIdx(as.key) = {} THEN servers' = Append(servers, as)
     ELSE LET i == CHOOSE i \in ServerIdx(as.key) : TRUE
          IN  IF servers[i].banned \/ ~as.banned THEN UNCHANGED servers
              ELSE servers' = [servers EXCEPT ![i] = as]
  /\ UNCHANGED <<now, up, gca, equip, pkidx, bans, offset, live, impact,
                 archive, migr, disk, seen>>

(* Migration orders: [equip, newgca, newid, servers, sig] *)
MigrationOK(m) ==
  /\ Valid(m.sig, gca.key)
  /\ \A i \in 1..Len(m.servers) : Valid(m.servers[i].sig, m.newgca)

Migrate(m) ==
  /\ Serving
  /\ IF MigrationOK(m) THEN migr' = Put(migr, m.equip, m) ELSE UNCHANGED migr
  /\ UNCHANGED <<now, up, gca, equip, pkidx, bans, offset, live, impact,
                 archive, servers, disk, seen>>

-----------------------------------------------------------------------------
(* Shutdown, crash and start-up.                                            *)
(* disk.keys    : "absent" | "empty" | "ok"                                 *)
(* disk.gcafile : "absent" | "empty" | key name                             *)

RECURSIVE FoldAuths(_, _)
FoldAuths(st, s) == IF s = <<>> THEN st
                    ELSE FoldAuths(ApplyAuth(st, Head(s)), Tail(s))

(* loadEquipmentReports: every record must name known equipment and verify;*)
(* repaired code skips records of banned equipment.                        *)
ReportLoadable(r, eq, bn) ==
  \/ r.id \in DOMAIN eq /\ Valid(r.sig, eq[r.id].key)
  \/ r.id \in bn /\ "bannedreports" \notin Defects

RECURSIVE FoldReports(_, _, _, _)
FoldReports(st, s, eq, off) ==
  IF s = <<>> THEN st
  ELSE FoldReports(IF Head(s).id \in DOMAIN eq
                   THEN Integrate(st, Head(s), eq, off) ELSE st,
                   Tail(s), eq, off)

RECURSIVE CatchUp(_, _)
CatchUp(st, t) == IF CatchUpDue(st.offset, t) THEN CatchUp(RotateState(st), t)
                  ELSE st

LoadGCA(d) ==
  IF d.gcafile = "absent" THEN [avail |-> FALSE, key |-> NoKey]
  ELSE IF d.gcafile = "empty"
       THEN (IF "emptygca" \in Defects THEN [avail |-> TRUE, key |-> "zero"]
             ELSE [avail |-> FALSE, key |-> NoKey])
       ELSE [avail |-> TRUE, key |-> d.gcafile]

LoadedEquip(d) ==
  FoldAuths([equip |-> EmptyFn, pkidx |-> EmptyFn, bans |-> {},
             live |-> EmptyFn, impact |-> EmptyFn], d.auths)

LoadedOffset(d) == IF d.stats = <<>> THEN 0 ELSE d.stats[Len(d.stats)].off + WeekLen

StartOK(d) ==
  /\ ~(d.keys = "empty" /\ "emptykeys" \in Defects)
  /\ \A i \in 1..Len(d.auths) : Valid(d.auths[i].sig, LoadGCA(d).key)
  /\ LET e == LoadedEquip(d)
     IN  \A i \in 1..Len(d.reports) : ReportLoadable(d.reports[i], e.equip, e.bans)
  /\ \A i \in 1..Len(d.reports) :
        LET r == d.reports[i] e == LoadedEquip(d)
        IN  (r.id \in DOMAIN e.equip /\ r.ts >= LoadedOffset(d)
              /\ UpperGuardOK(r.ts, LoadedOffset(d)))
            => IndexOK(r.ts, LoadedOffset(d))

(* the ghost set of delivered reports, rebuilt from the report file *)
SeenFrom(reps, eq, off) ==
  [id \in DOMAIN eq |->
     [ts \in {reps[i].ts : i \in {j \in 1..Len(reps) :
                 reps[j].id = id /\ reps[j].ts >= off /\ reps[j].ts < off + Window}} |->
        {[v |-> reps[i].v, sig |-> reps[i].sig] :
           i \in {j \in 1..Len(reps) : reps[j].id = id /\ reps[j].ts = ts}}]]

(* Start-up, as the code performs it: load the files (StartLoad), then the  *)
(* blocking catch-up loop of rotations with the UDP listener already live,  *)
(* then the remaining listeners (StartDone).                                *)
StartLoad ==
  /\ up = "down"
  /\ IF ~StartOK(disk)
     THEN /\ up' = "failed"
          /\ UNCHANGED <<gca, equip, pkidx, bans, offset, live, impact, archive,
                         servers, migr, disk, seen>>
     ELSE LET e   == LoadedEquip(disk)
              off == LoadedOffset(disk)
              r   == FoldReports([live |-> e.live, reports |-> disk.reports],
                                 disk.reports, e.equip, off)
          IN  /\ up' = "catchup"
              /\ gca' = LoadGCA(disk)
              /\ equip' = e.equip /\ pkidx' = e.pkidx /\ bans' = e.bans
              /\ offset' = off /\ live' = r.live /\ impact' = e.impact
              /\ archive' = disk.stats
              /\ servers' = <<>> /\ migr' = EmptyFn
              /\ disk' = [disk EXCEPT !.keys = "ok", !.reports = r.reports]
              /\ seen' = SeenFrom(disk.reports, e.equip, off)
  /\ UNCHANGED now

StartFailed ==
  /\ up = "failed" /\ up' = "down"
  /\ UNCHANGED <<now, gca, equip, pkidx, bans, offset, live, impact, archive,
                 servers, migr, disk, seen>>

StartDone ==
  /\ up = "catchup" /\ ~CatchUpDue(offset, now)
  /\ up' = "up"
  /\ UNCHANGED <<now, gca, equip, pkidx, bans, offset, live, impact, archive,
                 servers, migr, disk, seen>>

Close ==
  /\ Running
  /\ up' = "down"
  /\ UNCHANGED <<now, gca, equip, pkidx, bans, offset, live, impact, archive,
                 servers, migr, disk, seen>>

(* Process crash: memory is lost, completed system calls survive.  Crash at *)
(* an operation boundary is Crash; the two places where an operation is     *)
(* more than one system call on a file expose an intermediate file state:   *)
(* create-then-write of server.keys at first start and truncate-then-write  *)
(* of gcaPubKey.dat at registration.                                        *)
Crash ==
  /\ Running /\ up' = "down"
  /\ UNCHANGED <<now, gca, equip, pkidx, bans, offset, live, impact, archive,
                 servers, migr, disk, seen>>

CrashInRegister(k, sig) ==      \* after the truncation, before the write
  /\ Serving /\ RegisterOK(k, sig)
  /\ up' = "down" /\ disk' = [disk EXCEPT !.gcafile = "empty"]
  /\ UNCHANGED <<now, gca, equip, pkidx, bans, offset, live, impact, archive,
                 servers, migr, seen>>

CrashInFirstStart ==           \* server.keys created, not yet written
  /\ up = "down" /\ disk.keys = "absent"
  /\ disk' = [disk EXCEPT !.keys = "empty"]
  /\ UNCHANGED <<now, up, gca, equip, pkidx, bans, offset, live, impact, archive,
                 servers, migr, seen>>

(* C05: whatever the files look like after a crash, a valid registration is *)
(* still possible unless one is recorded                                    *)
StillRegistrable == LoadGCA(disk).avail => LoadGCA(disk).key \notin {"zero", NoKey}

Tick(t) ==
  /\ now' = t
  /\ UNCHANGED <<up, gca, equip, pkidx, bans, offset, live, impact, archive,
                 servers, migr, disk, seen>>

FreshDisk == [keys |-> "absent", gcafile |-> "absent", auths |-> <<>>,
              reports |-> <<>>, stats |-> <<>>]

Init ==
  /\ now = 0 /\ up = "down"
  /\ gca = [avail |-> FALSE, key |-> NoKey]
  /\ equip = EmptyFn /\ pkidx = EmptyFn /\ bans = {} /\ offset = 0
  /\ live = EmptyFn /\ impact = EmptyFn /\ archive = <<>>
  /\ servers = <<>> /\ migr = EmptyFn
  /\ disk = FreshDisk
  /\ seen = EmptyFn

-----------------------------------------------------------------------------
(* Properties.                                                              *)

(* C02: the published value of a slot is a function of the set of           *)
(* acceptable reports delivered for it.                                     *)
Pub(s) == s.v
SlotRule(S, cap) ==
  IF S = {} THEN "empty"
  ELSE IF Cardinality(S) >= 2 THEN "banned"
  ELSE IF \E x \in S : NonNegative(x.v) /\
            (x.v.c \in {"h", "m"} \/ x.v.n > Limit(cap)) THEN "banned"
  ELSE "one"

SlotIsFunctionOfSet ==
  \A id \in DOMAIN live :
    \A ts \in (DOMAIN live[id]) \cup (DOMAIN seen[id]) :
      LET S == Get(seen[id], ts, {})
          s == Slot(live, id, ts)
          f == SlotRule(S, equip[id].cap)
      IN  CASE f = "empty"  -> s.v = Zero
            [] f = "banned" -> s.v = One
            [] f = "one"    -> s \in S

(* the array index of every stored entry is inside the window *)
IndexInBounds ==
  /\ \A id \in DOMAIN live : \A ts \in DOMAIN live[id] : IndexOK(ts, offset)
  /\ \A id \in DOMAIN impact : \A ts \in DOMAIN impact[id] : IndexOK(ts, offset)

(* C03 *)
ArchiveContiguous ==
  /\ offset = Len(archive) * WeekLen
  /\ \A i \in 1..Len(archive) : archive[i].off = (i - 1) * WeekLen
  /\ Len(disk.stats) = Len(archive)
ArchiveSigned == \A i \in 1..Len(archive) : archive[i].sigok
ArchiveImmutable ==
  [][\A i \in 1..Len(archive) :
       i <= Len(archive') /\ archive'[i] = archive[i]]_vars

(* C06: the code's own CheckInvariants *)
SelfConsistent ==
  /\ Cardinality(DOMAIN equip) = Cardinality(DOMAIN pkidx)
  /\ \A a, b \in DOMAIN equip : equip[a].key = equip[b].key => a = b
  /\ \A id \in DOMAIN equip : Get(pkidx, equip[id].key, -1) = id
  /\ \A id \in DOMAIN equip : id \in DOMAIN impact
  /\ DOMAIN live = DOMAIN equip
BannedStaysOut == bans \cap DOMAIN equip = {}
BansMonotone == [][bans \subseteq bans']_vars

(* C07 *)
NoAuthBeforeRegister == ~gca.avail => equip = EmptyFn /\ disk.auths = <<>>
KeyNeverChanges == [][gca.avail /\ Running /\ up' # "down" => gca' = gca]_vars
EquipOnlySigned == \A id \in DOMAIN equip : Valid(equip[id].sig, gca.key)

(* Model checking aid: the report file grows by one copy of every distinct  *)
(* live report at each restart; duplicates do not influence any later load, *)
(* so views compare the file up to repetition.                              *)
RECURSIVE Dedup(_, _)
Dedup(s, acc) == IF s = <<>> THEN acc
                 ELSE IF \E i \in 1..Len(acc) : acc[i] = Head(s) THEN Dedup(Tail(s), acc)
                 ELSE Dedup(Tail(s), Append(acc, Head(s)))
DiskView == [disk EXCEPT !.reports = Dedup(@, <<>>)]

(* HTTP API: what a request that fails validation is answered with, by     *)
(* endpoint, method and request class (the state independent part of the    *)
(* handlers: method check, parameter / body parsing).  Requests that pass   *)
(* validation reach a critical section and are specified by the actions     *)
(* above.  A handler never panics, whatever the request.                    *)
Endpoints == {"all-device-stats", "authorized-servers", "authorize-equipment", "equipment",
              "equipment-migrate", "register-gca", "recent-reports", "geo-stats", "archive"}
AllowedMethods(ep) ==
  CASE ep \in {"authorize-equipment", "equipment-migrate", "register-gca"} -> {"POST"}
    [] ep = "authorized-servers" -> {"GET", "POST"}
    [] OTHER -> {"GET"}

(* request classes: "wrong-method", "bad-json", "zero-json" (well formed,   *)
(* all fields zero: no valid signature), "param-missing", "param-garbage",  *)
(* "param-misaligned", "key-unknown", "body-on-get", "plain"                *)
HttpExpected(ep, method, cls) ==
  IF method \notin AllowedMethods(ep) THEN {405}
  ELSE CASE cls = "bad-json" -> (IF ep = "authorized-servers" THEN {500} ELSE {400})
         [] cls = "zero-json" -> {500}
         [] cls \in {"param-missing", "param-garbage", "param-misaligned"} -> {400}
         [] cls = "key-unknown" -> {500}
         [] cls = "body-on-get" -> (IF ep = "archive" THEN {400} ELSE {200, 400, 500})
         [] cls = "plain" ->
              (CASE ep = "equipment" -> {200}
                 [] ep = "authorized-servers" -> {200}
                 [] ep = "archive" -> {200, 429}
                 [] ep = "geo-stats" -> {400, 500}      \* needs the network: offline it fails cleanly
                 [] OTHER -> {200, 400, 500})
         [] OTHER -> {200, 301, 400, 404, 405, 429, 500}

(* C10: bit i of the sync bitfield is set iff a (possibly banned) record is *)
(* held for timeslot offset + i; unknown and banned ids are refused        *)
SyncBitsOK ==
  /\ \A id \in DOMAIN equip :
        LET d == SyncData(id) IN
        /\ d.known /\ d.key = equip[id].key /\ d.offset = offset
        /\ \A i \in 0 .. (Window - 1) : (i \in d.bits) = (Slot(live, id, offset + i).v # Zero)
        /\ d.bits \subseteq 0 .. (Window - 1)
  /\ \A id \in bans : ~SyncData(id).known

(* C04: what a restart would produce, compared with memory after catch-up  *)
PersistedView ==
  [gca |-> gca, equip |-> equip, pkidx |-> pkidx, bans |-> bans,
   offset |-> offset, live |-> live, archive |-> archive]

RestartView(d, t) ==
  LET e   == LoadedEquip(d)
      off == LoadedOffset(d)
      r   == FoldReports([live |-> e.live, reports |-> d.reports], d.reports,
                         e.equip, off)
      c   == CatchUp([live |-> r.live, impact |-> e.impact, offset |-> off,
                      archive |-> d.stats, stats |-> d.stats,
                      equip |-> e.equip], t)
  IN  [gca |-> LoadGCA(d), equip |-> e.equip, pkidx |-> e.pkidx,
       bans |-> e.bans, offset |-> c.offset, live |-> c.live,
       archive |-> c.archive]

MemAfterCatchUp(t) ==
  LET c == CatchUp([live |-> live, impact |-> [id \in DOMAIN impact |-> EmptyFn],
                    offset |-> offset, archive |-> archive,
                    stats |-> disk.stats, equip |-> equip], t)
  IN  [gca |-> gca, equip |-> equip, pkidx |-> pkidx, bans |-> bans,
       offset |-> c.offset, live |-> c.live, archive |-> c.archive]

(* archived impact rates of weeks rotated by the catch-up differ (impact is *)
(* volatile), so the comparison ignores impact of weeks not yet archived.   *)
StripImp(a) == [i \in 1..Len(a) |->
                 [a[i] EXCEPT !.devs = {[x EXCEPT !.imp = EmptyFn] : x \in a[i].devs}]]
StripView(v) == [v EXCEPT !.archive = StripImp(@)]

RestartEquiv ==
  Serving => /\ StartOK(disk)
        /\ StripView(RestartView(disk, now)) = StripView(MemAfterCatchUp(now))
RestartEquivNow ==
  /\ StartOK(disk)
  /\ StripView(RestartView(disk, now)) = StripView(MemAfterCatchUp(now))
StartAlwaysOK == StartOK(disk)
=============================================================================
