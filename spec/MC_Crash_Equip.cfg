CONSTANTS WeekLen = 2  Accept = 1  RotTrigger = 3  CatchUpBound = 4  CapPct = 135
 Defects = @Defects@
 MaxAuths = @MaxAuths@  MaxReports = @MaxReports@
SPECIFICATION MCSpec
VIEW MCView
INVARIANTS StartAlwaysOK StillRegistrable RestartEquiv SelfConsistent BannedStaysOut StartSucceeds
PROPERTIES KeyNeverChanges
CHECK_DEADLOCK FALSE
