------------------------------- MODULE Client -------------------------------
(***************************************************************************)
(* The monitoring client of gca-backend: the history store, the report     *)
(* loop, and (further below) the sync round with server-list merge and GCA *)
(* migration.                                                              *)
(*                                                                         *)
(* A reading's 64-bit report value is [fit, n, tag]: fit = it is the       *)
(* two's complement of the integer n with |n| < 2^31 (it survives the      *)
(* history's 32-bit storage); otherwise n is the signed value of its low   *)
(* 32 bits and tag its identity.  The history stores n; 0 means empty.     *)
(***************************************************************************)
EXTENDS Integers, Sequences, FiniteSets, TLC, SequencesExt

CONSTANTS CDefects

VARIABLES
  hist,     \* timeslot -> stored 32-bit value (non-zero entries only)
  horigin,  \* first timeslot of the history file
  latest,   \* the report loop's latest record
  efile,    \* records of the energy file: sequence of [slot, val]
  sent      \* every datagram emitted: sequence of [ts, val]

cvars == <<hist, horigin, latest, efile, sent>>

CGet(f, k, d) == IF k \in DOMAIN f THEN f[k] ELSE d
CPut(f, k, v) == [x \in DOMAIN f \cup {k} |-> IF x = k THEN v ELSE f[x]]

Fit(n) == [fit |-> TRUE, n |-> n, tag |-> ""]
ActedOn(val) == ~(val.fit /\ val.n \in {0, 1})

(* staticSaveReading / staticLoadReading *)
Load(h, ts) == IF ts < horigin THEN 0 ELSE CGet(h, ts, 0)
Save(h, ts, v) ==
  IF ts < horigin THEN [ok |-> FALSE, h |-> h]
  ELSE LET cur == CGet(h, ts, 0) IN
       IF cur = v THEN [ok |-> TRUE, h |-> h]
       ELSE IF cur # 0 THEN [ok |-> FALSE, h |-> h]
       ELSE [ok |-> TRUE, h |-> CPut(h, ts, v)]

(* one pass of the report loop over the file: save, then send what is new *)
RECURSIVE LoopFold(_, _, _)
LoopFold(recs, h, out) ==
  IF recs = <<>> THEN [h |-> h, out |-> out]
  ELSE LET r == Head(recs)
           s == Save(h, r.slot, r.val.n)
       IN  LoopFold(Tail(recs), s.h,
                    IF s.ok /\ r.slot > latest THEN Append(out, [ts |-> r.slot, val |-> r.val]) ELSE out)

MaxSlot(recs, base) ==
  IF recs = <<>> THEN base
  ELSE LET m == CHOOSE x \in {recs[i].slot : i \in 1..Len(recs)} :
                  \A y \in {recs[i].slot : i \in 1..Len(recs)} : y <= x
       IN  IF m > base THEN m ELSE base

LoopIter ==
  LET r == LoopFold(efile, hist, <<>>) IN
  /\ hist' = r.h
  /\ sent' = sent \o r.out
  /\ latest' = MaxSlot(efile, latest)
  /\ UNCHANGED <<horigin, efile>>

(* start-up: every record is saved, nothing is sent; latest restarts from  *)
(* the records that could be saved                                         *)
RECURSIVE StartFold(_, _, _)
StartFold(recs, h, lt) ==
  IF recs = <<>> THEN [h |-> h, lt |-> lt]
  ELSE LET r == Head(recs)
           s == Save(h, r.slot, r.val.n)
       IN  StartFold(Tail(recs), s.h, IF s.ok /\ r.slot > lt THEN r.slot ELSE lt)

ClientRestart ==
  LET r == StartFold(efile, hist, 0) IN
  /\ hist' = r.h /\ latest' = r.lt
  /\ UNCHANGED <<horigin, efile, sent>>

EditFile(recs) == efile' = recs /\ UNCHANGED <<hist, horigin, latest, sent>>

(* a retransmission during a sync round: the stored 32 bits, sign extended *)
Resendable(ts) == Load(hist, ts) \notin {0, 1}
Resend(ts) ==
  /\ Resendable(ts)
  /\ sent' = Append(sent, [ts |-> ts, val |-> Fit(Load(hist, ts))])
  /\ UNCHANGED <<hist, horigin, latest, efile>>

-----------------------------------------------------------------------------
(* The sync exchange.  A reply is described abstractly:                     *)
(*  [len, key, offset, bits, mig |-> [present, newgca, newid, sig],         *)
(*   servers |-> sequence of [key, banned, loc, ports, sig], listok,        *)
(*   time |-> "fresh" | "old" | "future", sig]                              *)
(* ctx = [server |-> key of the contacted server, gca |-> the client's      *)
(* current GCA key, dev |-> the client's own key].                          *)
MinReplyLen == 712   \* 576 fixed bytes + migration signature + time + signature

SValid(sig, key) == sig.ok /\ sig.by = key /\ key # "none"

(* staticServerSync's sequence of checks *)
ParseOutcome(r, ctx) ==
  IF r.len < MinReplyLen
  THEN (IF "shortreply" \in CDefects THEN "PANIC" ELSE "short")
  ELSE IF r.time # "fresh" THEN "stale"
  ELSE IF ~SValid(r.sig, ctx.server) THEN "badsig"
  ELSE IF r.key # ctx.dev THEN "wrongdevice"
  ELSE IF r.mig.present /\ ~SValid(r.mig.sig, ctx.gca) THEN "badmigration"
  ELSE IF ~r.listok THEN "badlist"
  ELSE IF \E i \in 1..Len(r.servers) :
            ~SValid(r.servers[i].sig, IF r.mig.present THEN r.mig.newgca ELSE ctx.gca)
       THEN "badserver"
  ELSE "ok"

(* C10: the declarative acceptance condition *)
Authentic(r, ctx) ==
  /\ r.len >= MinReplyLen /\ r.time = "fresh" /\ r.listok
  /\ SValid(r.sig, ctx.server) /\ r.key = ctx.dev
  /\ (r.mig.present => SValid(r.mig.sig, ctx.gca))
  /\ \A i \in 1..Len(r.servers) :
        SValid(r.servers[i].sig, IF r.mig.present THEN r.mig.newgca ELSE ctx.gca)

-----------------------------------------------------------------------------
(* The sync rounds (threadedSyncWithServer).  The report loop launches a     *)
(* round in its own goroutine every 60 iterations, or 4 iterations after a   *)
(* failed one: a round that is waiting for a slow server overlaps with the   *)
(* next one.  Rounds share the identity state under c.mu; what a round keeps *)
(* in local variables between its critical sections is its record in rnd.    *)
(* State of the identity part:                                               *)
(*   cgca, cid          current GCA key and short id                        *)
(*   csrv               server key -> [banned, loc, ports]                  *)
(*   primary            the server reports are sent to                      *)
(*   cdisk              [gca, id, srv] what the three files hold            *)
(*   mutex              "free" | "held"  (c.mu)                             *)
(*   rnd                round id -> [phase, failed, attempts, gca, cur,     *)
(*                      skip]: gca is the GCA key read at the round's       *)
(*                      beginning, cur the server it picked last, skip the  *)
(*                      servers known as banned at its beginning (only used *)
(*                      by the deviation "frozenbans")                      *)
VARIABLES cgca, cid, csrv, primary, cdisk, mutex, rnd
svars == <<cgca, cid, csrv, primary, cdisk, mutex, rnd>>

RoundIds == {"r1", "r2", "r3", "r4"}   \* names for rounds in flight at the same time
IdleR == [phase |-> "idle", failed |-> {}, attempts |-> 0, gca |-> "none", cur |-> "zero", skip |-> {}]
Idle == [x \in RoundIds |-> IdleR]
AllIdle == \A x \in RoundIds : rnd[x].phase = "idle"
Entry(s) == [banned |-> s.banned, loc |-> s.loc, ports |-> s.ports]

(* merge rule: an entry is added if new, replaced only to become banned *)
RECURSIVE FoldServers(_, _)
FoldServers(m, list) ==
  IF list = <<>> THEN m
  ELSE LET s == Head(list) IN
       FoldServers(IF s.key \notin DOMAIN m \/ s.banned
                   THEN [x \in DOMAIN m \cup {s.key} |-> IF x = s.key THEN Entry(s) ELSE m[x]]
                   ELSE m, Tail(list))

BannedNow == {k \in DOMAIN csrv : csrv[k].banned}
(* the ban flag is read from the live list in every attempt; the deviation  *)
(* "frozenbans" reads it once, at the beginning of the round                *)
Candidates(x) == {k \in DOMAIN csrv : k \notin rnd[x].failed /\
                     IF "frozenbans" \in CDefects THEN k \notin rnd[x].skip ELSE ~csrv[k].banned}

RoundBegin(x) ==     \* first critical section: read primary and GCA key
  /\ rnd[x].phase = "idle" /\ mutex = "free"
  /\ rnd' = [rnd EXCEPT ![x] = [phase |-> "picking", failed |-> {}, attempts |-> 0, gca |-> cgca, cur |-> "zero",
                                skip |-> BannedNow]]
  /\ UNCHANGED <<cgca, cid, csrv, primary, cdisk, mutex>>

(* one attempt: under c.mu pick a random server that is neither banned nor  *)
(* failed in this round; the previous pick, if any, has failed              *)
Pick(x, k) ==
  /\ rnd[x].phase = "picking" /\ rnd[x].attempts < 5 /\ mutex = "free"
  /\ k \in Candidates(x)
  /\ primary' = k
  /\ rnd' = [rnd EXCEPT ![x].attempts = @ + 1, ![x].cur = k]
  /\ UNCHANGED <<cgca, cid, csrv, cdisk, mutex>>

AttemptFailed(x) ==
  /\ rnd[x].phase = "picking" /\ rnd[x].attempts > 0
  /\ rnd' = [rnd EXCEPT ![x].failed = @ \cup {rnd[x].cur}]
  /\ UNCHANGED <<cgca, cid, csrv, primary, cdisk, mutex>>

(* giving up: five attempts failed, or no candidate is left.  The second    *)
(* path returned with c.mu held before the repair (deviation "lockleak").   *)
GiveUp(x) ==
  /\ rnd[x].phase = "picking"
  /\ (rnd[x].attempts >= 5 \/ (Candidates(x) = {} /\ mutex = "free"))
  /\ rnd' = [rnd EXCEPT ![x] = IdleR]
  /\ mutex' = IF Candidates(x) = {} /\ rnd[x].attempts < 5 /\ "lockleak" \in CDefects THEN "held" ELSE mutex
  /\ UNCHANGED <<cgca, cid, csrv, primary, cdisk>>

(* a reply that passed every check (against the server this round contacted *)
(* and the GCA key it read at its beginning) is applied under c.mu:         *)
(* migration or merge, files first, then memory                             *)
(* The reply was verified against the GCA key read at the round's beginning. *)
(* If another round applied a migration meanwhile, that key is no longer the *)
(* client's GCA and the reply is discarded (DiscardStale); before the repair *)
(* it was applied all the same (deviation "stalegca"): lists and migration   *)
(* orders signed by the former GCA were adopted.                             *)
StillTrusted(x) == rnd[x].gca = cgca \/ "stalegca" \in CDefects
ApplyReply(x, r) ==
  /\ rnd[x].phase = "picking" /\ rnd[x].attempts > 0 /\ mutex = "free"
  /\ ParseOutcome(r, [server |-> rnd[x].cur, gca |-> rnd[x].gca, dev |-> r.key]) = "ok"
  /\ StillTrusted(x)
  /\ IF r.mig.present /\ r.mig.newgca # cgca
     THEN LET m == FoldServers(<<>>, r.servers) IN
          /\ cgca' = r.mig.newgca /\ cid' = r.mig.newid /\ csrv' = m
          /\ cdisk' = [gca |-> r.mig.newgca, id |-> r.mig.newid, srv |-> m]
     ELSE LET m == FoldServers(csrv, r.servers) IN
          /\ csrv' = m /\ cdisk' = [cdisk EXCEPT !.srv = m]
          /\ UNCHANGED <<cgca, cid>>
  /\ rnd' = [rnd EXCEPT ![x] = IdleR]
  /\ UNCHANGED <<primary, mutex>>

DiscardStale(x, r) ==
  /\ rnd[x].phase = "picking" /\ rnd[x].attempts > 0 /\ mutex = "free"
  /\ ParseOutcome(r, [server |-> rnd[x].cur, gca |-> rnd[x].gca, dev |-> r.key]) = "ok"
  /\ ~StillTrusted(x)
  /\ rnd' = [rnd EXCEPT ![x] = IdleR]
  /\ UNCHANGED <<cgca, cid, csrv, primary, cdisk, mutex>>

(* restart: identity and list come back from the files; some non-banned     *)
(* server becomes primary (Close waits for the rounds in flight)            *)
ClientReload(k) ==
  /\ cgca' = cdisk.gca /\ cid' = cdisk.id /\ csrv' = cdisk.srv
  /\ (k \in DOMAIN cdisk.srv /\ ~cdisk.srv[k].banned) \/
     (k = "zero" /\ \A x \in DOMAIN cdisk.srv : cdisk.srv[x].banned)
  /\ primary' = k /\ mutex' = "free" /\ rnd' = Idle
  /\ UNCHANGED cdisk

(* C11 / C17 *)
LockFreeWhenIdle == AllIdle => mutex = "free"
(* a pick never selects a server the client knows, at that moment, as banned *)
NeverSelectBannedStep ==
  \A x \in RoundIds : rnd'[x].attempts > rnd[x].attempts =>
     rnd'[x].cur \in DOMAIN csrv /\ ~csrv[rnd'[x].cur].banned
PersistEqualsAdopted == cdisk = [gca |-> cgca, id |-> cid, srv |-> csrv]
BannedMonotoneStep ==
  \A k \in DOMAIN csrv : csrv[k].banned /\ cgca' = cgca => (k \in DOMAIN csrv' /\ csrv'[k].banned)
EntryFrozenStep ==
  \A k \in DOMAIN csrv : (cgca' = cgca /\ k \in DOMAIN csrv' /\ csrv'[k] # csrv[k]) => csrv'[k].banned
DiskBannedMonotoneStep ==
  \A k \in DOMAIN cdisk.srv : cdisk.srv[k].banned /\ cdisk'.gca = cdisk.gca =>
     (k \in DOMAIN cdisk'.srv /\ cdisk'.srv[k].banned)

SInit == /\ cgca = "none" /\ cid = 0 /\ csrv = <<>> /\ primary = "zero"
         /\ cdisk = [gca |-> "none", id |-> 0, srv |-> <<>>] /\ mutex = "free" /\ rnd = Idle

CInit == hist = <<>> /\ horigin = 0 /\ latest = 0 /\ efile = <<>> /\ sent = <<>>

-----------------------------------------------------------------------------
(* C09 *)
NoEquivocation ==
  \A i, j \in 1..Len(sent) :
    (sent[i].ts = sent[j].ts /\ ActedOn(sent[i].val) /\ ActedOn(sent[j].val)) => sent[i].val = sent[j].val
SentIsStored ==
  \A i \in 1..Len(sent) : ActedOn(sent[i].val) => Load(hist, sent[i].ts) = sent[i].val.n
HistoryStable ==
  [][\A ts \in DOMAIN hist : hist[ts] # 0 => (ts \in DOMAIN hist' /\ hist'[ts] = hist[ts])]_cvars
=============================================================================
