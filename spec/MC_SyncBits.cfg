CONSTANTS WeekLen = 2  Accept = 1  RotTrigger = 3  CatchUpBound = 4  CapPct = 135
 Defects = {}
 MaxNow = @MaxNow@  MaxReports = @MaxReports@
SPECIFICATION MCSpec
VIEW MCView
INVARIANTS SyncBitsOK IndexInBounds
CHECK_DEADLOCK FALSE
