CONSTANTS DiagLine = @DiagLine@  Limit = @Limit@
SPECIFICATION TSpec
POSTCONDITION Accepted
CHECK_DEADLOCK FALSE
