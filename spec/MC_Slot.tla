------------------------------ MODULE MC_Slot ------------------------------
(* Exhaustive check of the per-slot rule (C02): every sequence of reports   *)
(* over a small alphabet, two devices, two slots, fixed clock, no rotation. *)
EXTENDS Server

CONSTANTS MaxSeen   \* bound on the number of distinct acceptable reports delivered

Dev == [i \in {1, 2} |->
          [id |-> i, key |-> IF i = 1 THEN "d1" ELSE "d2", cap |-> 100,
           rest |-> "r", sig |-> [by |-> "gca", ok |-> TRUE, tag |-> "auth"]]]

Vals == {Small(0), Small(1), Small(2), Small(135), Small(136),
         [c |-> "g", n |-> 1], [c |-> "h", n |-> 1], [c |-> "m", n |-> 0]}

(* two valid signatures per content (tags a, b: a re-signed variant), one   *)
(* by the other device, one damaged                                        *)
SigsFor(i) == {[by |-> Dev[i].key, ok |-> TRUE, tag |-> "a"],
               [by |-> Dev[i].key, ok |-> TRUE, tag |-> "b"],
               [by |-> Dev[3 - i].key, ok |-> TRUE, tag |-> "o"],
               [by |-> Dev[i].key, ok |-> FALSE, tag |-> "x"]}

Datagrams == UNION {[len : {80}, id : {i}, ts : {0, 1}, v : Vals, sig : SigsFor(i)]
                    : i \in {1, 2}}

SeenCount == LET S == {<<i, t>> : i \in {1, 2}, t \in {0, 1}}
             IN  FoldSet(LAMBDA p, acc : acc + Cardinality(Get(seen[p[1]], p[2], {})), 0, S)

MCInit ==
  /\ now = 0 /\ up = "up"
  /\ gca = [avail |-> TRUE, key |-> "gca"]
  /\ equip = Dev
  /\ pkidx = [k \in {"d1", "d2"} |-> IF k = "d1" THEN 1 ELSE 2]
  /\ bans = {} /\ offset = 0
  /\ live = [i \in {1, 2} |-> EmptyFn]
  /\ impact = [i \in {1, 2} |-> EmptyFn]
  /\ archive = <<>> /\ servers = <<>> /\ migr = EmptyFn
  /\ disk = [keys |-> "ok", gcafile |-> "gca", auths |-> <<Dev[1], Dev[2]>>,
             reports |-> <<>>, stats |-> <<>>]
  /\ seen = [i \in {1, 2} |-> EmptyFn]

Others(d) == {<<i, t>> \in {1, 2} \X {0, 1} : <<i, t>> # <<d.id, d.ts>>}

Recv(d) ==
  /\ RecvReport(d)
  \* C01 inside the action: a datagram that is not acceptable changes nothing
  /\ Assert(Acceptable(d) \/ (live' = live /\ disk' = disk), "OnlyAcceptableChange")
  \* C02 isolation: other (device, slot) pairs are untouched
  /\ Assert(\A p \in Others(d) : Slot(live', p[1], p[2]) = Slot(live, p[1], p[2]),
            "SlotIsolation")

MCNext == \E d \in Datagrams :
             /\ (Acceptable(d) /\ [v |-> d.v, sig |-> d.sig] \notin Get(seen[d.id], d.ts, {}))
                  => SeenCount < MaxSeen
             /\ Recv(d)

MCSpec == MCInit /\ [][MCNext]_vars

BanSticky ==
  [][\A i \in {1, 2} : \A t \in {0, 1} :
       Slot(live, i, t).v = One => Slot(live', i, t).v = One]_vars
FirstValueKept ==
  [][\A i \in {1, 2} : \A t \in {0, 1} :
       Slot(live, i, t).v # Zero =>
         Slot(live', i, t).v \in {Slot(live, i, t).v, One} /\
         Slot(live', i, t).sig = Slot(live, i, t).sig]_vars

MCView == <<live, seen>>
=============================================================================
