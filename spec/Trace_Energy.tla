---------------------------- MODULE Trace_Energy ----------------------------
(* Validation of the real energy-file parser and calibration reader against  *)
(* Energy.tla: each event carries the abstract file and what the code made   *)
(* of its concrete rendering.                                                *)
EXTENDS Energy, Json
CONSTANT DiagLine
VARIABLE l
Trace == ndJsonDeserialize("trace.ndjson")
Ev == Trace[l]

UnRow(r) == [nf |-> r.nf, ts |-> [c |-> r.ts.c, slot |-> r.ts.slot],
             rd |-> [c |-> r.rd.c, n |-> r.rd.n, k |-> r.rd.k, s |-> r.rd.s]]
UnRows(x) == [i \in DOMAIN x |-> UnRow(x[i])]

ValMatches(exp, got) == \/ exp.c = "any"
                        \/ (got.c = "v" /\ exp.c = "v" /\ got.n = exp.n)
                        \* an integer of many digits under a calibration ratio of one: the full 64-bit value, as decimal strings
                        \/ (exp.c = "bigs" /\ got.c = "big" /\ got.s = exp.s)

TRead ==
  /\ Ev.a = "Read"
  /\ Ev.panic = "" /\ ~Ev.err
  /\ LET exp == ReadFile(UnRows(Ev.rows), Ev.mult, Ev.div)
     IN  /\ Len(exp) = Len(Ev.recs)
         /\ \A i \in 1..Len(exp) :
               /\ Ev.recs[i].slot = exp[i].slot
               /\ ValMatches(exp[i].val, Ev.recs[i].val)
TReadMissing == Ev.a = "ReadMissing" /\ Ev.panic = "" /\ Ev.err

UnCal(f) == [i \in DOMAIN f |-> [c |-> f[i].c, v |-> f[i].v]]
TCal ==
  /\ Ev.a = "Cal"
  /\ Ev.panic = ""
  /\ LET exp == Calibration(Ev.absent, UnCal(Ev.file), Ev.dm, Ev.dd)
     IN  /\ Ev.ok = exp.ok
         /\ exp.ok => (Ev.mult = exp.mult /\ Ev.div = exp.div)

TNext ==
  /\ l <= Len(Trace) /\ l' = l + 1
  /\ (IF l = DiagLine THEN PrintT(<<"DIAG", l, Ev, "expected",
         IF Ev.a = "Read" THEN ReadFile(UnRows(Ev.rows), Ev.mult, Ev.div) ELSE <<>> >>) ELSE TRUE)
  /\ (TRead \/ TReadMissing \/ TCal)
TSpec == l = 1 /\ [][TNext]_l
Accepted == TLCGet("stats").diameter - 1 = Len(Trace)
=============================================================================
