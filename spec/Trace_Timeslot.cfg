CONSTANTS AcceptW = 432  SlotLen = 300  MaxExactSlot = 14316557  DiagLine = @DiagLine@
SPECIFICATION TSpec
POSTCONDITION Accepted
CHECK_DEADLOCK FALSE
