----------------------------- MODULE Trace_Wire -----------------------------
(* The real encoders / decoders / signing-bytes functions compared with the  *)
(* layouts of Wire.tla: each event carries the field values as byte          *)
(* sequences (little-endian conversion by the harness, checked here for      *)
(* small numbers) and what the implementation produced.                      *)
EXTENDS Wire, Json
CONSTANT DiagLine
VARIABLE l
Trace == ndJsonDeserialize("trace.ndjson")
Ev == Trace[l]

F(e) == [n \in DOMAIN e.fields |-> e.fields[n]]

TEnc ==   \* Serialize and SigningBytes of a value
  /\ Ev.a = "Enc"
  /\ WidthsOK(Ev.typ, F(Ev))
  /\ Ev.ser = Encode(Ev.typ, F(Ev))
  /\ HasSig(Ev.typ) => Ev.sb = SigningBytes(Ev.typ, F(Ev))
  /\ Ev.sbdet                                   \* SigningBytes twice gives the same bytes
TNum ==   \* little-endian rule on a small number
  /\ Ev.a = "Num" /\ Ev.bytes = LE(Ev.v, Ev.w)
TDec ==   \* Deserialize: wrong lengths refused, right lengths give back the fields
  /\ Ev.a = "Dec"
  /\ Ev.ok = (Ev.len = FixedLen(Ev.typ))
  /\ Ev.ok => Ev.same
TStream ==  \* stream / map decoders: k records in, k records out, trailing garbage refused
  /\ Ev.a = "Stream"
  /\ Ev.ok = Ev.wellformed /\ (Ev.ok => Ev.same)
TSig ==   \* sign/verify samples: deterministic; any flipped bit of message, signature or key fails
  /\ Ev.a = "Sig" /\ Ev.det /\ Ev.verifies /\ Ev.flipsrejected = Ev.flips /\ ~Ev.mallverifies
TJson ==  \* JSON transport preserves an authorization exactly
  /\ Ev.a = "Json" /\ Ev.same
TCross == \* a signature over one type's signing bytes never verifies as another type with the same fields
  /\ Ev.a = "Cross" /\ ~Ev.verifies
TTail ==  \* two servers that differ only beyond byte 255 of the location have different signing bytes
  /\ Ev.a = "Tail" /\ ~Ev.sbsame /\ Ev.selfverifies /\ ~Ev.crossverifies
TNext ==
  /\ l <= Len(Trace) /\ l' = l + 1
  /\ (IF l = DiagLine THEN PrintT(<<"DIAG", l, Ev>>) ELSE TRUE)
  /\ (TEnc \/ TNum \/ TDec \/ TStream \/ TSig \/ TJson \/ TCross \/ TTail)
TSpec == l = 1 /\ [][TNext]_l
Accepted == TLCGet("stats").diameter - 1 = Len(Trace)
ASSUME PrefixFree /\ FixedLens
=============================================================================
