------------------------------ MODULE LockData ------------------------------
(* placeholder: the real module is generated from the tree under test by harness/cmd/lockcfg *)
Funcs == {"f"}
Roots == {"f"}
Ctors == {}
News == {}
ProtectedPairs == {<<"T.x", "T.mu">>}
Body(f) == << [ops |-> << <<"lock", "T.mu", "p">>, <<"acc", "T.x", "p">>, <<"unlock", "T.mu", "p">> >>, succ |-> {}, exit |-> "return"] >>
=============================================================================
