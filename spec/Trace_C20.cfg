CONSTANTS WeekLen = 2016  Accept = 432  RotTrigger = 3200  CatchUpBound = 4000  CapPct = 135
 Defects = {}
 Strict = {"Start", "Close", "Rotate", "RotFirstPoll"}
 InvSel = {"ArchiveContiguous", "ArchiveImmutable", "IndexInBounds", "SelfConsistent", "BansMonotone", "KeyNeverChanges", "RestartEquiv"}
 DiagLine = @DiagLine@
SPECIFICATION TSpec
POSTCONDITION Accepted
CHECK_DEADLOCK FALSE
