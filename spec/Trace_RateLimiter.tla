------------------------- MODULE Trace_RateLimiter -------------------------
(* Trace validation of the real glow.RateLimiter: one event per Allow call,  *)
(* recorded under the limiter's mutex (time used, decision, queue length),   *)
(* plus the caller's own before/after clock readings.                        *)
EXTENDS RateLimiter, Json
CONSTANT DiagLine
VARIABLE l
tvars == <<vars, l>>
Trace == ndJsonDeserialize("trace.ndjson")
Ev == Trace[l]

TCfg == Ev.a = "Cfg" /\ Ev.limit = Limit
        /\ reqs' = <<>> /\ adm' = <<>> /\ lastT' = 0 /\ res' = FALSE

TAllow ==
  /\ Ev.a = "Allow"
  /\ Allow(Ev.t, Ev.cut)
  /\ res' = Ev.ok /\ Ev.ret = Ev.ok
  /\ Len(reqs') = Ev.q
  /\ res' = Decision(Ev.t, Ev.cut)
  \* the caller's clock readings bracket the time the limiter used
  /\ Ev.before <= Ev.t /\ Ev.t <= Ev.after

TNext ==
  /\ l <= Len(Trace) /\ l' = l + 1
  /\ (IF l = DiagLine THEN PrintT(<<"DIAG", l, Ev, "reqs", reqs, "lastT", lastT>>) ELSE TRUE)
  /\ (TCfg \/ TAllow)
  /\ WindowBound'
TSpec == Init /\ l = 1 /\ [][TNext]_tvars
Accepted == TLCGet("stats").diameter - 1 = Len(Trace)
=============================================================================
