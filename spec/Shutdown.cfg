CONSTANTS Conns = {c1, c2, c3}  ShDefects = @ShDefects@
SPECIFICATION Spec
PROPERTIES BoundedShutdown
CHECK_DEADLOCK FALSE
