---------------------------- MODULE Trace_Client ----------------------------
(* Trace validation of the real client's report loop against Client.tla.     *)
(* The loop is single-stepped by the driver through the yield points around  *)
(* one iteration; datagrams are captured at the client's send hook.          *)
EXTENDS Client, Json
CONSTANTS DiagLine, CInvSel
VARIABLES l, obs   \* obs: datagrams seen since the iteration began
tvars == <<cvars, svars, l, obs>>
Trace == ndJsonDeserialize("trace.ndjson")
Ev == Trace[l]

UnVal(v) == [fit |-> v.fit, n |-> v.n, tag |-> v.tag]
UnRecs(x) == [i \in DOMAIN x |-> [slot |-> x[i].slot, val |-> UnVal(x[i].val)]]
UnHist(p) == [k \in {p[i][1] : i \in DOMAIN p} |-> p[CHOOSE i \in DOMAIN p : p[i][1] = k][2]]
UnSent(x) == [i \in DOMAIN x |-> [ts |-> x[i].ts, val |-> UnVal(x[i].val)]]

TReset ==
  /\ Ev.a = "Reset"
  /\ hist' = <<>> /\ horigin' = 0 /\ latest' = 0 /\ efile' = <<>> /\ sent' = <<>> /\ obs' = <<>>
TSetup ==   \* a client directory prepared with a history origin
  /\ Ev.a = "Setup" /\ horigin' = Ev.origin
  /\ UNCHANGED <<hist, latest, efile, sent, obs>>
TEdit == Ev.a = "EditFile" /\ EditFile(UnRecs(Ev.recs)) /\ UNCHANGED obs
TStart ==   \* NewClient: the start-up pass
  /\ Ev.a = "ClientStart" /\ Ev.ok
  /\ ClientRestart
  /\ hist' = UnHist(Ev.hist)
  /\ obs = <<>> /\ obs' = <<>>       \* nothing is emitted at start-up
TLoopRead ==   \* under c.mu: the loop's latest record as the code holds it
  /\ Ev.a = "LoopRead" /\ Ev.latest = latest
  /\ obs = <<>>                      \* every datagram belongs to an iteration
  /\ UNCHANGED cvars /\ obs' = <<>>
TSend ==
  /\ Ev.a = "Send"
  /\ obs' = Append(obs, [ts |-> Ev.d.ts, val |-> UnVal(Ev.d.val)])
  /\ Ev.d.sigok /\ Ev.d.id = Ev.id
  /\ UNCHANGED cvars
TLoopDone ==
  /\ Ev.a = "LoopDone"
  /\ LoopIter
  /\ hist' = UnHist(Ev.hist)
  /\ sent' = sent \o obs           \* exactly the datagrams the model emits, in order
  /\ obs' = <<>>
TClose == Ev.a = "ClientClose" /\ obs = <<>> /\ UNCHANGED cvars /\ obs' = <<>>

CInvByName(n) ==
  CASE n = "NoEquivocation" -> NoEquivocation'
    [] n = "SentIsStored" -> SentIsStored'
    [] n = "HistoryStable" ->
         (Ev.a # "Reset" => \A ts \in DOMAIN hist : hist[ts] # 0 => (ts \in DOMAIN hist' /\ hist'[ts] = hist[ts]))

TNext ==
  /\ l <= Len(Trace) /\ l' = l + 1
  /\ (IF l = DiagLine THEN PrintT(<<"DIAG", l, Ev, "hist", hist, "latest", latest, "efile", efile, "obs", obs,
                                    "expected", LoopFold(efile, hist, <<>>)>>) ELSE TRUE)
  /\ (TReset \/ TSetup \/ TEdit \/ TStart \/ TLoopRead \/ TSend \/ TLoopDone \/ TClose)
  /\ UNCHANGED svars
  /\ \A n \in CInvSel : IF l = DiagLine THEN (IF CInvByName(n) THEN TRUE ELSE PrintT(<<"DIAG invariant fails", n>>))
                        ELSE CInvByName(n)
TSpec == CInit /\ SInit /\ l = 1 /\ obs = <<>> /\ [][TNext]_tvars
Accepted == TLCGet("stats").diameter - 1 = Len(Trace)
=============================================================================
