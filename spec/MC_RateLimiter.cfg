CONSTANTS Limit = @Limit@  Rate = @Rate@  MaxTime = @MaxTime@  MaxCalls = @MaxCalls@  Defects = @Defects@
SPECIFICATION MCSpec
INVARIANTS WindowBound
CHECK_DEADLOCK FALSE
