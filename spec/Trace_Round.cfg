CONSTANTS CDefects = {}  DiagLine = @DiagLine@
 RInvSel = {"BannedMonotone", "EntryFrozenUnlessBan", "DiskBannedMonotone", "PersistEqualsAdopted", "LockFreeWhenIdle"}
SPECIFICATION TSpec
POSTCONDITION Accepted
CHECK_DEADLOCK FALSE
