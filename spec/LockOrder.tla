------------------------------ MODULE LockOrder ------------------------------
(* The nesting edges TLC found while walking the lock control-flow graphs (a mutex acquired *)
(* while another is held) must form an acyclic order: no deadlock by lock inversion.        *)
EXTENDS Integers, FiniteSets, TLC
Edges == (* @Edges@ *) {<<"client.Client.mu", "glow.EventLogger.mu">>} (* @/Edges@ *)
Nodes == {e[1] : e \in Edges} \cup {e[2] : e \in Edges}
RECURSIVE Reach(_, _)
Reach(S, n) == IF n = 0 THEN S ELSE Reach(S \cup {e[2] : e \in {x \in Edges : x[1] \in S}}, n - 1)
Acyclic == \A a \in Nodes : a \notin Reach({e[2] : e \in {x \in Edges : x[1] = a}}, Cardinality(Nodes))
VARIABLE x
Init == x = 0
Next == UNCHANGED x
=============================================================================
