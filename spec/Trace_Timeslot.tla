--------------------------- MODULE Trace_Timeslot ---------------------------
(* Validation of samples of the real conversion functions and of the real    *)
(* handler's acceptance decisions.  Unix times are given as quotient and     *)
(* remainder of (t - genesis) by the slot length (computed by the harness    *)
(* with big integers); 32-bit values at the extremes as two 16-bit limbs.    *)
EXTENDS Integers, Sequences, TLC, Json
CONSTANTS AcceptW, SlotLen, MaxExactSlot, DiagLine
VARIABLE l
Trace == ndJsonDeserialize("trace.ndjson")
Ev == Trace[l]

(* limb arithmetic, base 2^16 *)
B == 65536
LE(a, b) == a[1] < b[1] \/ (a[1] = b[1] /\ a[2] <= b[2])
AddSmall(a, k) == IF a[2] + k >= B THEN <<a[1] + 1, a[2] + k - B>> ELSE <<a[1], a[2] + k>>
InWindowMath(now, ts) == LE(now, AddSmall(ts, AcceptW)) /\ LE(ts, AddSmall(now, AcceptW))

TU2T ==
  /\ Ev.a = "U2T"
  /\ IF Ev.neg THEN Ev.err
     ELSE /\ ~Ev.err
          /\ Ev.slot = Ev.q                     \* floor((t - genesis) / SlotLen)
          /\ Ev.bq = Ev.q /\ Ev.br = 0          \* and back: the start of the same slot
          /\ Ev.r >= 0 /\ Ev.r < SlotLen
TT2U ==
  /\ Ev.a = "T2U"
  /\ Ev.s <= MaxExactSlot => (Ev.bq = Ev.s /\ Ev.br = 0)
TWin ==
  /\ Ev.a = "Win"
  /\ ~Ev.other
  /\ Ev.rejected = ~InWindowMath(Ev.now, Ev.ts)
TProd ==
  /\ Ev.a = "Prod"
  /\ Ev.genesis = 1700352000
  /\ Ev.slot_before <= Ev.current /\ Ev.current <= Ev.slot_after
  /\ Ev.trigger + Ev.period + Ev.halfw < Ev.window     \* CadenceSafe on the production numbers
  /\ Ev.period >= 1
TNext ==
  /\ l <= Len(Trace) /\ l' = l + 1
  /\ (IF l = DiagLine THEN PrintT(<<"DIAG", l, Ev>>) ELSE TRUE)
  /\ (TU2T \/ TT2U \/ TWin \/ TProd)
TSpec == l = 1 /\ [][TNext]_l
Accepted == TLCGet("stats").diameter - 1 = Len(Trace)
=============================================================================
