CONSTANTS WeekLen = 2016  Accept = 432  RotTrigger = 3200  CatchUpBound = 4000  CapPct = 135
 Defects = {}
 Strict = {"Authorize", "RecvReport", "Start", "Close"}
 InvSel = {"SelfConsistent", "BannedStaysOut", "BansMonotone", "EquipOnlySigned", "IndexInBounds"}
 DiagLine = @DiagLine@
SPECIFICATION TSpec
POSTCONDITION Accepted
CHECK_DEADLOCK FALSE
