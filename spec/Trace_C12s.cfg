CONSTANTS WeekLen = 2016  Accept = 432  RotTrigger = 3200  CatchUpBound = 4000  CapPct = 135
 Defects = {}
 Strict = {"Http", "Start"}
 InvSel = {"IndexInBounds"}
 DiagLine = @DiagLine@
SPECIFICATION TSpec
POSTCONDITION Accepted
CHECK_DEADLOCK FALSE
