----------------------------- MODULE MC_Archive -----------------------------
(* Every interleaving of up to MaxBursts writes (registration, new device,   *)
(* first report, rotation) with the reads of one archive request.            *)
EXTENDS Archive
CONSTANT MaxBursts
(* the order in which the code archives its public files (server.PublicFiles, mapped to
   the abstract file names by the orchestrator) *)
Order == (* @Order@ *) <<"stats", "reports", "auths", "gca", "temp">> (* @/Order@ *)
Write == bursts < MaxBursts /\ bursts' = bursts + 1 /\ UNCHANGED <<pos, arc>>
         /\ (Register \/ (\E id \in {1, 2} : NewDevice(id) \/ Report(id)) \/ Rotate)
Next == Write \/ ReadNext
Spec == Init /\ [][Next]_vars
=============================================================================
