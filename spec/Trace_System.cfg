CONSTANTS DiagLine = @DiagLine@  AllValues = @AllValues@  WeekLen = 2016  Accept = 432
SPECIFICATION TSpec
POSTCONDITION Accepted
CHECK_DEADLOCK FALSE
