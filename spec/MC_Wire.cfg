INIT Init
NEXT Next
INVARIANTS PrefixFree FixedLens RoundTrip Injective
