---------------------------- MODULE Trace_Archive ----------------------------
(* Validation of real archives produced while writes are in progress: each   *)
(* event is one downloaded zip, decoded by the harness's reference decoders. *)
EXTENDS Integers, Sequences, FiniteSets, TLC, Json
CONSTANTS DiagLine, Limit
VARIABLE l
Trace == ndJsonDeserialize("trace.ndjson")
Ev == Trace[l]
SValid(sig, key) == sig.ok /\ sig.by = key /\ key \notin {"none", "absent"}

(* an archive: record-aligned files, dependency closed, public only *)
TArchive ==
  /\ Ev.a = "Archive" /\ Ev.status = 200
  /\ Ev.tails = <<0, 0, 0>>                                   \* every file is a whole number of records
  /\ ~Ev.leak                                                  \* the private key is nowhere in the zip
  /\ Ev.names = Ev.expectednames
  /\ \A i \in DOMAIN Ev.reports :                              \* every report has its authorization, and verifies under it
        \E j \in DOMAIN Ev.auths :
           Ev.auths[j].id = Ev.reports[i].id /\ SValid(Ev.reports[i].sig, Ev.auths[j].key)
  /\ \A j \in DOMAIN Ev.auths : SValid(Ev.auths[j].sig, Ev.gca)  \* every authorization verifies under the archived GCA key
  /\ \A k \in DOMAIN Ev.stats : Ev.stats[k].sigok              \* statistics verify under the archived server key
  /\ Ev.pubkeyok
  \* prefixes of the final files
  /\ Ev.prefix
(* a burst of requests: never more than Limit archives within one rate window; judged with the *)
(* callers' before/after clock readings so that only certain violations count                   *)
TBurst ==
  /\ Ev.a = "Burst"
  \* Ev.ok is sorted by the callers' "before" readings: Limit+1 archives i..j were certainly served within
  \* one rate window if the latest "after" among them is less than a window after the earliest "before"
  /\ \A i \in DOMAIN Ev.ok : \A j \in DOMAIN Ev.ok :
        (j = i + Limit) =>
           LET late == CHOOSE m \in {Ev.ok[k][2] : k \in i..j} : \A k \in i..j : Ev.ok[k][2] <= m
           IN  ~(late - Ev.ok[i][1] < Ev.rate_us)
  /\ Ev.n200 >= 1
  /\ \A s \in {Ev.statuses[i] : i \in DOMAIN Ev.statuses} : s \in {200, 429}
(* a server without a registered GCA has no GCA key file: the request fails, nothing is produced *)
(* archives of large files served concurrently: each is a well-formed zip of record-aligned prefixes *)
TArchiveBig ==
  /\ Ev.a = "ArchiveBig" /\ Ev.status \in {200, 429}
  /\ (Ev.status = 200 => Ev.zipok /\ Ev.prefix /\ Ev.aligned)
TNoArchive == Ev.a = "Archive" /\ Ev.status = 500 /\ ~Ev.registered
TNoise == Ev.a \in {"DriverNote"}
TNext ==
  /\ l <= Len(Trace) /\ l' = l + 1
  /\ (IF l = DiagLine THEN PrintT(<<"DIAG", l, Ev>>) ELSE TRUE)
  /\ (TArchive \/ TNoArchive \/ TBurst \/ TArchiveBig \/ TNoise)
TSpec == l = 1 /\ [][TNext]_l
Accepted == TLCGet("stats").diameter - 1 = Len(Trace)
=============================================================================
