CONSTANTS WeekLen = 2016  Accept = 432  RotTrigger = 3200  CatchUpBound = 4000  CapPct = 135
 Defects = {}
 Strict = {"RecvReport", "Authorize", "Register", "Rotate", "ImpactSet", "QueryStats", "SyncRead", "AuthorizeServer", "Migrate", "Start", "Close"}
 InvSel = {"IndexInBounds", "SelfConsistent", "ArchiveContiguous", "ArchiveImmutable", "SlotIsFunctionOfSet", "BannedStaysOut", "KeyNeverChanges", "SrvList"}
 DiagLine = @DiagLine@
SPECIFICATION TSpec
POSTCONDITION Accepted
CHECK_DEADLOCK FALSE
