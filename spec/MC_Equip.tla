------------------------------ MODULE MC_Equip ------------------------------
(* Exhaustive check of registration (C07) and of the equipment rules (C06): *)
(* every sequence of registrations, authorizations (valid, invalid and      *)
(* foreign signatures, duplicates, conflicts in any field, reused keys,     *)
(* submissions for banned ids), reports and restarts, up to a bound.        *)
EXTENDS Server

CONSTANTS MaxAuths, MaxReports

Ids == {1, 2, 3}
DKeys == {"ka", "kb"}
Gcas == {"gca", "gca2"}

Regs == [k : Gcas, sig : {[by |-> b, ok |-> o, tag |-> "reg"] : b \in {"temp", "gca", "x1"}, o \in BOOLEAN}]

Auths == [id : Ids, key : DKeys, cap : {100, 200}, rest : {"r"},
          sig : {[by |-> b, ok |-> o, tag |-> t] :
                   b \in {"gca", "gca2", "temp"}, o \in BOOLEAN, t \in {"t1", "t2"}}]

Reports == [len : {80}, id : Ids, ts : {0}, v : {Small(5)},
            sig : {[by |-> k, ok |-> TRUE, tag |-> "rs"] : k \in DKeys}]

MCInit ==
  /\ now = 0 /\ up = "down"          \* before the very first start: no file exists
  /\ gca = [avail |-> FALSE, key |-> NoKey]
  /\ equip = EmptyFn /\ pkidx = EmptyFn /\ bans = {} /\ offset = 0
  /\ live = EmptyFn /\ impact = EmptyFn /\ archive = <<>>
  /\ servers = <<>> /\ migr = EmptyFn
  /\ disk = FreshDisk
  /\ seen = EmptyFn

OthersUntouched(id) ==
  \A o \in (DOMAIN equip) \ {id} :
     /\ o \in DOMAIN equip' /\ equip'[o] = equip[o]
     /\ Get(pkidx', equip[o].key, -1) = Get(pkidx, equip[o].key, -1)
     /\ live'[o] = live[o] /\ impact'[o] = impact[o]

Auth(a) ==
  /\ Authorize(a)
  \* C06: the set of devices changes only through an authorization signed by the registered key
  /\ Assert(equip' # equip => gca.avail /\ Valid(a.sig, gca.key), "EquipOnlyByGCA")
  \* C06: a conflict bans exactly one id, everything else is untouched
  /\ Assert(OthersUntouched(a.id), "BanExactlyOne")
  /\ Assert(AuthOutcome(a) = "conflict" =>
              a.id \in bans' /\ a.id \notin DOMAIN equip' /\ a.id \notin DOMAIN live', "ConflictBans")
  /\ Assert(AuthOutcome(a) = "same" => UNCHANGED <<equip, pkidx, bans, live, disk>>, "DuplicateIsNoOp")

Reg(r) ==
  /\ Register(r.k, r.sig)
  /\ Assert(gca' # gca => ~gca.avail /\ Valid(r.sig, TempKey), "RegisterOnlyByTempKey")

MCNext ==
  \/ \E r \in Regs : Reg(r)
  \/ \E a \in Auths : (AuthOutcome(a) \in {"new", "conflict"} => Len(disk.auths) < MaxAuths) /\ Auth(a)
  \/ \E d \in Reports : (Acceptable(d) => Len(disk.reports) < MaxReports) /\ RecvReport(d)
  \/ Close \/ StartLoad \/ StartDone
  \/ Crash \/ CrashInFirstStart \/ (\E r \in Regs : CrashInRegister(r.k, r.sig))

MCSpec == MCInit /\ [][MCNext]_vars

(* C07: at most one registration ever succeeds: the key file never changes once written *)
GcaFileWriteOnce == [][disk.gcafile \notin {"absent", "empty"} => disk'.gcafile = disk.gcafile]_vars
(* C06: bans survive everything, including restart *)
BansSurvive == [][up' # "down" /\ up' # "failed" /\ ~(up = "down") => bans \subseteq bans']_vars
StartSucceeds == up # "failed"
MCView == <<up, gca, equip, pkidx, bans, live, DiskView>>
=============================================================================
