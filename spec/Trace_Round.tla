---------------------------- MODULE Trace_Round ----------------------------
(* Trace validation of the real client's sync rounds against Client.tla.     *)
(* Servers are harness-owned TCP endpoints with their own keys; each event   *)
(* of a critical section (SyncBegin, SyncPick, SyncApply, hooks under c.mu)  *)
(* carries the client's identity state, SyncApply also the decoded files.    *)
EXTENDS Client, SchedRule, Json
CONSTANTS DiagLine, RInvSel
VARIABLES l, served,  \* served[x]: what the server picked by round x was serving at the pick
          rstat,      \* rstat[x]: "free" | "run" | "applied" (round x of the trace), conc[x]: another round's
          conc,       \*   result was recorded while x may already have stored its own
          sch         \* the report loop's scheduling state (SchedRule.tla), see TLoopInit
tvars == <<cvars, svars, l, served, rstat, conc, sch>>
Trace == ndJsonDeserialize("trace.ndjson")
Ev == Trace[l]

USig(g) == [by |-> g.by, ok |-> g.ok, tag |-> g.tag]
UServer(s) == [key |-> s.key, banned |-> s.banned, loc |-> s.loc, ports |-> s.ports, sig |-> USig(s.sig)]
UServers(x) == [i \in DOMAIN x |-> UServer(x[i])]
UReply(r) == [len |-> r.len, key |-> r.key, offset |-> r.offset, bits |-> {r.bits[i] : i \in DOMAIN r.bits},
              mig |-> [present |-> r.mig.present, newgca |-> r.mig.newgca, newid |-> r.mig.newid, sig |-> USig(r.mig.sig)],
              servers |-> UServers(r.servers), listok |-> r.listok, time |-> r.time, sig |-> USig(r.sig)]
UMap(p) == [k \in {p[i][1] : i \in DOMAIN p} |->
              LET e == p[CHOOSE i \in DOMAIN p : p[i][1] = k][2]
              IN  [banned |-> e.banned, loc |-> e.loc, ports |-> e.ports]]
UState(st) == [gca |-> st.gca, id |-> st.id, srv |-> UMap(st.srv)]

MatchMem(st) == cgca' = st.gca /\ cid' = st.id /\ csrv' = UMap(st.srv)
MatchDisk(f) == cdisk' = UState(f)
AllFree == [x \in RoundIds |-> "free"]
NoConc == [x \in RoundIds |-> FALSE]
NoSched == [on |-> FALSE, ticks |-> 0, poss |-> {}, nl |-> 0, nb |-> 0, lflag |-> FALSE, closing |-> FALSE]
NoServedR == [mode |-> "none"]
NoServed == [x \in RoundIds |-> NoServedR]
(* the round an event belongs to: the driver names the goroutine; events of   *)
(* histories with one round at a time carry no name                           *)
Rid == IF "rid" \in DOMAIN Ev THEN Ev.rid ELSE "r1"

(* what the previous pick of round x served did not yield an acceptable reply *)
PrevFailedOK(x, dev) ==
  served[x].mode # "reply" \/
  ParseOutcome(UReply(served[x].reply), [server |-> rnd[x].cur, gca |-> rnd[x].gca, dev |-> dev]) # "ok"

(* round x holds an acceptable reply it may not apply: the GCA changed since the round began *)
StaleDiscard(x, dev) ==
  /\ rnd[x].phase = "picking" /\ rnd[x].attempts > 0 /\ served[x].mode = "reply"
  /\ ParseOutcome(UReply(served[x].reply), [server |-> rnd[x].cur, gca |-> rnd[x].gca, dev |-> dev]) = "ok"
  /\ ~StillTrusted(x)

TReset ==
  /\ Ev.a = "Reset"
  /\ cgca' = "none" /\ cid' = 0 /\ csrv' = <<>> /\ primary' = "zero"
  /\ cdisk' = [gca |-> "none", id |-> 0, srv |-> <<>>] /\ mutex' = "free" /\ rnd' = Idle
  /\ served' = NoServed /\ rstat' = AllFree /\ conc' = NoConc /\ sch' = NoSched
TFiles ==    \* the driver prepared / an operator edited the client directory
  /\ Ev.a = "CliFiles" /\ cdisk' = UState(Ev.files)
  /\ UNCHANGED <<cgca, cid, csrv, primary, mutex, rnd, served, rstat, conc, sch>>
TStart ==
  /\ Ev.a = "ClientStart" /\ Ev.ok
  /\ ClientReload(Ev.state.primary)
  /\ MatchMem(Ev.state)
  /\ served' = NoServed /\ rstat' = AllFree /\ conc' = NoConc /\ UNCHANGED sch
TBegin ==
  /\ Ev.a = "SyncBegin" /\ Rid \in RoundIds /\ RoundBegin(Rid) /\ MatchMem(Ev.state)
  /\ rstat[Rid] = "free"
  /\ served' = [served EXCEPT ![Rid] = NoServedR]
  /\ rstat' = [rstat EXCEPT ![Rid] = "run"] /\ conc' = [conc EXCEPT ![Rid] = FALSE]
  \* a round started by the report loop was launched by it before
  /\ IF sch.on THEN sch.nb < sch.nl /\ sch' = [sch EXCEPT !.nb = @ + 1] ELSE UNCHANGED sch
TPick ==     \* a new pick: the previous one (if any) failed
  /\ Ev.a = "SyncPick" /\ Rid \in RoundIds
  /\ LET x == Rid IN
     /\ (rnd[x].attempts > 0 => PrevFailedOK(x, Ev.dev))
     /\ LET f == IF rnd[x].attempts > 0 THEN rnd[x].failed \cup {rnd[x].cur} ELSE rnd[x].failed IN
        /\ rnd[x].phase = "picking" /\ rnd[x].attempts < 5
        /\ Ev.server \in DOMAIN csrv /\ ~csrv[Ev.server].banned /\ Ev.server \notin f   \* NeverSelectBanned
        /\ primary' = Ev.server
        /\ rnd' = [rnd EXCEPT ![x].failed = f, ![x].attempts = @ + 1, ![x].cur = Ev.server]
     /\ served' = [served EXCEPT ![x] = [mode |-> Ev.serving.mode, reply |-> Ev.serving.reply]]
  /\ MatchMem(Ev.state) /\ UNCHANGED <<cdisk, mutex, rstat, conc, sch>>
TApply ==
  /\ Ev.a = "SyncApply" /\ Rid \in RoundIds
  /\ served[Rid].mode = "reply"
  /\ ApplyReply(Rid, UReply(served[Rid].reply))
  /\ served[Rid].reply.key = Ev.dev
  /\ MatchMem(Ev.state) /\ MatchDisk(Ev.files)
  \* what the reply shows as missing is retransmitted to the server this round synced with
  /\ served' = [served EXCEPT ![Rid] = [mode |-> "synced", with |-> rnd[Rid].cur]]
  /\ rstat' = [rstat EXCEPT ![Rid] = "applied"] /\ UNCHANGED <<conc, sch>>
TSend ==     \* a datagram leaves; one sent by a sync round goes to the server that round synced with
  /\ Ev.a = "Send"
  /\ ("rid" \in DOMAIN Ev => (Ev.rid \in RoundIds /\ served[Ev.rid].mode = "synced" /\ Ev.to = served[Ev.rid].with))
  /\ UNCHANGED <<svars, served, rstat, conc, sch>>
TEnd ==
  /\ Ev.a = "RoundEnd" /\ Rid \in RoundIds
  /\ Ev.panic = ""
  /\ Ev.lockfree                                     \* LockFreeAtReturn
  /\ LET x == Rid IN
     IF Ev.ok THEN rnd[x].phase = "idle" /\ UNCHANGED svars
     ELSE /\ rnd[x].phase = "picking"
          /\ \/ StaleDiscard(x, Ev.dev)
             \/ /\ (rnd[x].attempts > 0 => PrevFailedOK(x, Ev.dev))
                /\ LET f == IF rnd[x].attempts > 0 THEN rnd[x].failed \cup {rnd[x].cur} ELSE rnd[x].failed IN
                   (rnd[x].attempts >= 5 \/ {k \in DOMAIN csrv : ~csrv[k].banned /\ k \notin f} = {})
          /\ rnd' = [rnd EXCEPT ![x] = IdleR] /\ UNCHANGED <<cgca, cid, csrv, primary, cdisk, mutex>>
  /\ (cgca' = Ev.state.gca /\ cid' = Ev.state.id /\ csrv' = UMap(Ev.state.srv))
  /\ cdisk' = UState(Ev.files)
  /\ served' = [served EXCEPT ![Rid] = NoServedR]
  /\ rstat' = [rstat EXCEPT ![Rid] = "free"] /\ UNCHANGED <<conc, sch>>

(* ---- scheduling of rounds by the report loop (events of the loop goroutine and of the goroutines *)
(* it launches; none of them is under a lock, the tracer serialises them)                           *)
Exhausted(x) ==    \* round x may have given up: five attempts made, or nothing left to pick
  /\ rstat[x] = "run" /\ rnd[x].phase = "picking"
  /\ LET f == IF rnd[x].attempts > 0 THEN rnd[x].failed \cup {rnd[x].cur} ELSE rnd[x].failed IN
     (rnd[x].attempts >= 5 \/ {k \in DOMAIN csrv : ~csrv[k].banned /\ k \notin f} = {}
        \/ (rnd[x].attempts > 0 /\ served[x].mode = "reply" /\ ~StillTrusted(x)))
MayHaveStored(x) == rstat[x] = "applied" \/ Exhausted(x) \/ (sch.closing /\ rstat[x] = "run")
(* the values syncStatus may hold now: what is known, or the result of a round that may already have *)
(* stored it although its SyncReturn event is not recorded yet                                        *)
PossNow ==
  sch.poss \cup {1 : x \in {y \in RoundIds : rstat[y] = "applied"}}
           \cup {0 : x \in {y \in RoundIds : Exhausted(y) \/ (sch.closing /\ rstat[y] = "run")}}
           \cup (IF sch.closing THEN {0, 1} ELSE {})
TLoopInit ==
  /\ Ev.a = "LoopInit"
  /\ Ev.ticks = StartTicks
  /\ Ev.status = (IF Ev.recent THEN 1 ELSE 0)       \* the last successful sync is recent, or not
  /\ sch' = [on |-> TRUE, ticks |-> Ev.ticks, poss |-> {Ev.status}, nl |-> 0, nb |-> 0, lflag |-> FALSE, closing |-> FALSE]
  /\ UNCHANGED <<svars, served, rstat, conc>>
TLaunch ==
  /\ Ev.a = "SyncLaunch" /\ sch.on /\ ~sch.lflag
  /\ sch' = [sch EXCEPT !.lflag = TRUE, !.nl = @ + 1]
  /\ UNCHANGED <<svars, served, rstat, conc>>
TTick ==     \* one iteration of the loop is over: the decision taken fits the rule for a possible status
  /\ Ev.a = "LoopTick" /\ sch.on
  /\ LET t1 == sch.ticks + 1
         fit == {st \in PossNow : Decide(t1, st) = sch.lflag} IN
     /\ fit # {}
     /\ Ev.ticks = (IF sch.lflag THEN 0 ELSE t1)
     /\ sch' = [sch EXCEPT !.ticks = Ev.ticks, !.lflag = FALSE, !.poss = fit]
  /\ UNCHANGED <<svars, served, rstat, conc>>
TReturn ==   \* the goroutine of a launched round stored the round's result
  /\ Ev.a = "SyncReturn" /\ Rid \in RoundIds /\ sch.on
  /\ LET x == Rid
         v == IF Ev.ok THEN 1 ELSE 0 IN
     /\ IF Ev.ok THEN rstat[x] = "applied" /\ UNCHANGED svars
        ELSE /\ rstat[x] = "run"
             /\ (sch.closing \/ StaleDiscard(x, Ev.dev) \/ (Exhausted(x) /\ (rnd[x].attempts > 0 => PrevFailedOK(x, Ev.dev))))
             /\ rnd' = [rnd EXCEPT ![x] = IdleR] /\ UNCHANGED <<cgca, cid, csrv, primary, cdisk, mutex>>
     /\ sch' = [sch EXCEPT !.poss = IF conc[x] THEN @ \cup {v} ELSE {v}]
     /\ conc' = [y \in RoundIds |-> IF y = x THEN FALSE ELSE (conc[y] \/ MayHaveStored(y))]
     /\ rstat' = [rstat EXCEPT ![x] = "free"]
     /\ served' = [served EXCEPT ![x] = NoServedR]
TClosing ==
  /\ Ev.a = "ClientClosing"
  /\ sch' = [sch EXCEPT !.closing = TRUE]
  /\ UNCHANGED <<svars, served, rstat, conc>>
TQuiesce ==  \* the loop is parked and every launched round has returned: each launch became a round
  /\ Ev.a = "SchedQuiesce" /\ sch.on
  /\ sch.nb = sch.nl /\ \A x \in RoundIds : rstat[x] = "free"
  /\ UNCHANGED <<svars, served, rstat, conc, sch>>
TProbe ==    \* after the round the report loop still completes an iteration
  /\ Ev.a = "LoopProbe" /\ Ev.ok
  /\ UNCHANGED <<svars, served, rstat, conc, sch>>
TNoise ==
  /\ Ev.a \in {"LoopRead", "LoopDone", "ClientClose", "Setup", "DriverNote", "Resyncs"}
  /\ (Ev.a = "Resyncs" => Ev.n >= 2)    \* after failed rounds the loop starts new rounds by itself
  /\ UNCHANGED <<svars, served, rstat, conc>>
  /\ sch' = IF Ev.a = "ClientClose" THEN NoSched ELSE sch

RInvByName(n) ==
  CASE n = "BannedMonotone" -> (Ev.a # "Reset" => BannedMonotoneStep)
    [] n = "EntryFrozenUnlessBan" -> (Ev.a # "Reset" => EntryFrozenStep)
    [] n = "DiskBannedMonotone" -> (Ev.a \notin {"Reset", "CliFiles"} => DiskBannedMonotoneStep)
    [] n = "PersistEqualsAdopted" -> (Ev.a \in {"SyncApply", "RoundEnd", "ClientStart"} => PersistEqualsAdopted')
    [] n = "LockFreeWhenIdle" -> LockFreeWhenIdle'

TNext ==
  /\ l <= Len(Trace) /\ l' = l + 1
  /\ (IF l = DiagLine THEN PrintT(<<"DIAG", l, Ev, "cgca", cgca, "csrv", csrv, "primary", primary, "rnd", rnd, "served", served, "cdisk", cdisk,
                                    "rstat", rstat, "conc", conc, "sch", sch>>) ELSE TRUE)
  /\ (TReset \/ TFiles \/ TStart \/ TBegin \/ TPick \/ TApply \/ TEnd \/ TProbe \/ TNoise
      \/ TSend \/ TLoopInit \/ TLaunch \/ TTick \/ TReturn \/ TClosing \/ TQuiesce)
  /\ UNCHANGED cvars
  /\ \A n \in RInvSel : IF l = DiagLine THEN (IF RInvByName(n) THEN TRUE ELSE PrintT(<<"DIAG invariant fails", n>>))
                        ELSE RInvByName(n)
TSpec == CInit /\ SInit /\ l = 1 /\ served = NoServed /\ rstat = AllFree /\ conc = NoConc /\ sch = NoSched /\ [][TNext]_tvars
Accepted == TLCGet("stats").diameter - 1 = Len(Trace)
=============================================================================
