---------------------------- MODULE Trace_Round ----------------------------
(* Trace validation of the real client's sync rounds against Client.tla.     *)
(* Servers are harness-owned TCP endpoints with their own keys; each event   *)
(* of a critical section (SyncBegin, SyncPick, SyncApply, hooks under c.mu)  *)
(* carries the client's identity state, SyncApply also the decoded files.    *)
EXTENDS Client, Json
CONSTANTS DiagLine, RInvSel
VARIABLES l, served   \* served[x]: what the server picked by round x was serving at the pick
tvars == <<cvars, svars, l, served>>
Trace == ndJsonDeserialize("trace.ndjson")
Ev == Trace[l]

USig(g) == [by |-> g.by, ok |-> g.ok, tag |-> g.tag]
UServer(s) == [key |-> s.key, banned |-> s.banned, loc |-> s.loc, ports |-> s.ports, sig |-> USig(s.sig)]
UServers(x) == [i \in DOMAIN x |-> UServer(x[i])]
UReply(r) == [len |-> r.len, key |-> r.key, offset |-> r.offset, bits |-> {r.bits[i] : i \in DOMAIN r.bits},
              mig |-> [present |-> r.mig.present, newgca |-> r.mig.newgca, newid |-> r.mig.newid, sig |-> USig(r.mig.sig)],
              servers |-> UServers(r.servers), listok |-> r.listok, time |-> r.time, sig |-> USig(r.sig)]
UMap(p) == [k \in {p[i][1] : i \in DOMAIN p} |->
              LET e == p[CHOOSE i \in DOMAIN p : p[i][1] = k][2]
              IN  [banned |-> e.banned, loc |-> e.loc, ports |-> e.ports]]
UState(st) == [gca |-> st.gca, id |-> st.id, srv |-> UMap(st.srv)]

MatchMem(st) == cgca' = st.gca /\ cid' = st.id /\ csrv' = UMap(st.srv)
MatchDisk(f) == cdisk' = UState(f)
NoServedR == [mode |-> "none"]
NoServed == [x \in RoundIds |-> NoServedR]
(* the round an event belongs to: the driver names the goroutine; events of   *)
(* histories with one round at a time carry no name                           *)
Rid == IF "rid" \in DOMAIN Ev THEN Ev.rid ELSE "r1"

(* what the previous pick of round x served did not yield an acceptable reply *)
PrevFailedOK(x, dev) ==
  served[x].mode # "reply" \/
  ParseOutcome(UReply(served[x].reply), [server |-> rnd[x].cur, gca |-> rnd[x].gca, dev |-> dev]) # "ok"

TReset ==
  /\ Ev.a = "Reset"
  /\ cgca' = "none" /\ cid' = 0 /\ csrv' = <<>> /\ primary' = "zero"
  /\ cdisk' = [gca |-> "none", id |-> 0, srv |-> <<>>] /\ mutex' = "free" /\ rnd' = Idle
  /\ served' = NoServed
TFiles ==    \* the driver prepared / an operator edited the client directory
  /\ Ev.a = "CliFiles" /\ cdisk' = UState(Ev.files)
  /\ UNCHANGED <<cgca, cid, csrv, primary, mutex, rnd, served>>
TStart ==
  /\ Ev.a = "ClientStart" /\ Ev.ok
  /\ ClientReload(Ev.state.primary)
  /\ MatchMem(Ev.state)
  /\ served' = NoServed
TBegin ==
  /\ Ev.a = "SyncBegin" /\ Rid \in RoundIds /\ RoundBegin(Rid) /\ MatchMem(Ev.state)
  /\ served' = [served EXCEPT ![Rid] = NoServedR]
TPick ==     \* a new pick: the previous one (if any) failed
  /\ Ev.a = "SyncPick" /\ Rid \in RoundIds
  /\ LET x == Rid IN
     /\ (rnd[x].attempts > 0 => PrevFailedOK(x, Ev.dev))
     /\ LET f == IF rnd[x].attempts > 0 THEN rnd[x].failed \cup {rnd[x].cur} ELSE rnd[x].failed IN
        /\ rnd[x].phase = "picking" /\ rnd[x].attempts < 5
        /\ Ev.server \in DOMAIN csrv /\ ~csrv[Ev.server].banned /\ Ev.server \notin f   \* NeverSelectBanned
        /\ primary' = Ev.server
        /\ rnd' = [rnd EXCEPT ![x].failed = f, ![x].attempts = @ + 1, ![x].cur = Ev.server]
     /\ served' = [served EXCEPT ![x] = [mode |-> Ev.serving.mode, reply |-> Ev.serving.reply]]
  /\ MatchMem(Ev.state) /\ UNCHANGED <<cdisk, mutex>>
TApply ==
  /\ Ev.a = "SyncApply" /\ Rid \in RoundIds
  /\ served[Rid].mode = "reply"
  /\ ApplyReply(Rid, UReply(served[Rid].reply))
  /\ served[Rid].reply.key = Ev.dev
  /\ MatchMem(Ev.state) /\ MatchDisk(Ev.files)
  /\ served' = [served EXCEPT ![Rid] = NoServedR]
TEnd ==
  /\ Ev.a = "RoundEnd" /\ Rid \in RoundIds
  /\ Ev.panic = ""
  /\ Ev.lockfree                                     \* LockFreeAtReturn
  /\ LET x == Rid IN
     IF Ev.ok THEN rnd[x].phase = "idle" /\ UNCHANGED svars
     ELSE /\ rnd[x].phase = "picking"
          /\ (rnd[x].attempts > 0 => PrevFailedOK(x, Ev.dev))
          /\ LET f == IF rnd[x].attempts > 0 THEN rnd[x].failed \cup {rnd[x].cur} ELSE rnd[x].failed IN
             (rnd[x].attempts >= 5 \/ {k \in DOMAIN csrv : ~csrv[k].banned /\ k \notin f} = {})
          /\ rnd' = [rnd EXCEPT ![x] = IdleR] /\ UNCHANGED <<cgca, cid, csrv, primary, cdisk, mutex>>
  /\ (cgca' = Ev.state.gca /\ cid' = Ev.state.id /\ csrv' = UMap(Ev.state.srv))
  /\ cdisk' = UState(Ev.files)
  /\ served' = [served EXCEPT ![Rid] = NoServedR]
TProbe ==    \* after the round the report loop still completes an iteration
  /\ Ev.a = "LoopProbe" /\ Ev.ok
  /\ UNCHANGED <<svars, served>>
TNoise ==
  /\ Ev.a \in {"Send", "LoopRead", "LoopDone", "ClientClose", "Setup", "DriverNote", "Resyncs"}
  /\ (Ev.a = "Resyncs" => Ev.n >= 2)    \* after failed rounds the loop starts new rounds by itself
  /\ UNCHANGED <<svars, served>>

RInvByName(n) ==
  CASE n = "BannedMonotone" -> (Ev.a # "Reset" => BannedMonotoneStep)
    [] n = "EntryFrozenUnlessBan" -> (Ev.a # "Reset" => EntryFrozenStep)
    [] n = "DiskBannedMonotone" -> (Ev.a \notin {"Reset", "CliFiles"} => DiskBannedMonotoneStep)
    [] n = "PersistEqualsAdopted" -> (Ev.a \in {"SyncApply", "RoundEnd", "ClientStart"} => PersistEqualsAdopted')
    [] n = "LockFreeWhenIdle" -> LockFreeWhenIdle'

TNext ==
  /\ l <= Len(Trace) /\ l' = l + 1
  /\ (IF l = DiagLine THEN PrintT(<<"DIAG", l, Ev, "cgca", cgca, "csrv", csrv, "primary", primary, "rnd", rnd, "served", served, "cdisk", cdisk>>) ELSE TRUE)
  /\ (TReset \/ TFiles \/ TStart \/ TBegin \/ TPick \/ TApply \/ TEnd \/ TProbe \/ TNoise)
  /\ UNCHANGED cvars
  /\ \A n \in RInvSel : IF l = DiagLine THEN (IF RInvByName(n) THEN TRUE ELSE PrintT(<<"DIAG invariant fails", n>>))
                        ELSE RInvByName(n)
TSpec == CInit /\ SInit /\ l = 1 /\ served = NoServed /\ [][TNext]_tvars
Accepted == TLCGet("stats").diameter - 1 = Len(Trace)
=============================================================================
