---------------------------- MODULE Trace_System ----------------------------
(***************************************************************************)
(* System level trace checks for loss recovery (C08) and for the identity  *)
(* of everything a device emits for a timeslot (C09), over recordings of   *)
(* the real client, a UDP relay that drops / duplicates / reorders, and    *)
(* the real server.                                                        *)
(*   Send{ts, val, dg}     the client's send hook (dg = digest of the      *)
(*                         80 bytes)                                       *)
(*   Net{op, dg}           the relay's decision for a datagram             *)
(*   SrvView{offset, bits, now}  the server's sync bitfield for the device *)
(*   CliHist{hist}         the client's decoded history file               *)
(*   Quiesce{roundok}      a fault-free round completed and everything     *)
(*                         the relay held was delivered                    *)
(***************************************************************************)
EXTENDS Integers, Sequences, FiniteSets, TLC, Json
CONSTANTS DiagLine, AllValues, WeekLen, Accept
VARIABLES l, emitted, hist, srv
vars == <<l, emitted, hist, srv>>
Window == 2 * WeekLen
Trace == ndJsonDeserialize("trace.ndjson")
Ev == Trace[l]

ActedOn(v) == ~(v.fit /\ v.n \in {0, 1})
UHist(p) == [k \in {p[i][1] : i \in DOMAIN p} |-> p[CHOOSE i \in DOMAIN p : p[i][1] = k][2]]

TReset == Ev.a = "Reset" /\ emitted' = <<>> /\ hist' = <<>> /\ srv' = [offset |-> 0, bits |-> {}, now |-> 0]
TSend ==
  /\ Ev.a = "Send"
  /\ emitted' = Append(emitted, [ts |-> Ev.d.ts, fit |-> Ev.d.val.fit, n |-> Ev.d.val.n, tag |-> Ev.d.val.tag, dg |-> Ev.dg])
  /\ UNCHANGED <<hist, srv>>
TSrv == Ev.a = "SrvView" /\ srv' = [offset |-> Ev.offset, bits |-> {Ev.bits[i] : i \in DOMAIN Ev.bits}, now |-> Ev.now]
        /\ UNCHANGED <<emitted, hist>>
TCli == Ev.a = "CliHist" /\ hist' = UHist(Ev.hist) /\ UNCHANGED <<emitted, srv>>

(* C08: after a fault-free round and delivery of the retransmissions the   *)
(* server holds a record for every slot of its window, still acceptable,   *)
(* for which the device has a reading                                      *)
Recovered ==
  \A ts \in DOMAIN hist :
    (hist[ts] \notin {0, 1} /\ ts >= srv.offset /\ ts < srv.offset + Window
       /\ ts >= srv.now - Accept /\ ts <= srv.now + Accept)
    => (ts - srv.offset) \in srv.bits
TQuiesce == Ev.a = "Quiesce" /\ Ev.roundok /\ Recovered /\ UNCHANGED <<emitted, hist, srv>>

TNoise == Ev.a \in {"Net", "LoopRead", "LoopDone", "ClientStart", "ClientClose", "Setup", "DriverNote", "SyncBegin",
                     "SyncPick", "SyncApply", "RoundEnd", "LoopProbe", "EditFile", "CliFiles"}
          /\ UNCHANGED <<emitted, hist, srv>>

(* C08 RetransmitIdentical (readings that fit 32 signed bits) / C09 (all   *)
(* values the server acts on): every datagram emitted for a timeslot is    *)
(* the same bytes                                                          *)
Identical ==
  \A j \in 1..Len(emitted') :
    LET b == emitted'[j]
        i == CHOOSE i \in 1..j : emitted'[i].ts = b.ts /\ \A k \in 1..(i - 1) : emitted'[k].ts # b.ts
        a == emitted'[i]      \* the datagram originally sent for that timeslot
    IN  ((AllValues \/ a.fit) /\ ActedOn(a)) => b.dg = a.dg

TNext ==
  /\ l <= Len(Trace) /\ l' = l + 1
  /\ (IF l = DiagLine THEN PrintT(<<"DIAG", l, Ev, "hist", hist, "srv", srv,
        "missing", {ts \in DOMAIN hist : hist[ts] \notin {0, 1} /\ (ts - srv.offset) \notin srv.bits}>>) ELSE TRUE)
  /\ (TReset \/ TSend \/ TSrv \/ TCli \/ TQuiesce \/ TNoise)
  /\ Identical
TSpec == l = 1 /\ emitted = <<>> /\ hist = <<>> /\ srv = [offset |-> 0, bits |-> {}, now |-> 0] /\ [][TNext]_vars
Accepted == TLCGet("stats").diameter - 1 = Len(Trace)
=============================================================================
