----------------------------- MODULE MC_Timeslot -----------------------------
(* Exhaustive evaluation over a toy word: every unix time, every pair of     *)
(* (now, timeslot) values.                                                   *)
EXTENDS Timeslot, TLC
VARIABLE x
W == 0 .. (Word - 1)
Times == (Genesis - 5) .. (Genesis + Word - 1)
Init == x = 0
Next == UNCHANGED x
AllRoundTrip == \A t \in Times : RoundTrip(t)
AllMonotone == \A t1, t2 \in Times : Monotone(t1, t2)
AllRefused == \A t \in Times : BeforeGenesisRefused(t)
AllExact == \A s \in W : ExactBelowBound(s)
AllWindow == \A now, ts \in W : WindowCorrect(now, ts)
=============================================================================
