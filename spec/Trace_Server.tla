---------------------------- MODULE Trace_Server ----------------------------
(***************************************************************************)
(* Trace validation of the real server against Server.tla.                 *)
(*                                                                         *)
(* trace.ndjson holds one event per line, recorded by the harness from the *)
(* hooks of the implementation (emitted under the protecting mutex) and    *)
(* from the driver (environment steps and observed replies).  Every event  *)
(* names a Server action with its arguments and, for state changing        *)
(* critical sections, the projected state after the step (post).           *)
(*                                                                         *)
(* For an event whose name is in Strict the effect is computed by the      *)
(* specification's action and compared with post; other events adopt post. *)
(* The invariants named in the .cfg are evaluated in every state.          *)
(***************************************************************************)
EXTENDS Server, Json

CONSTANTS Strict,
          InvSel,    \* names of the invariants / step properties evaluated at every step
          DiagLine   \* 0, or the line whose expected/actual states are printed

VARIABLES
  l,     \* index of the next event
  pend,  \* expectation about the reply of the operation in progress
  rot,   \* "idle" | "due": the rotation thread's last decision
  atag   \* identity tags of the archived records' signatures

tvars == <<vars, l, pend, rot, atag>>

Trace == ndJsonDeserialize("trace.ndjson")
Ev == Trace[l]

-----------------------------------------------------------------------------
(* JSON -> specification values *)
Idx(s) == DOMAIN s
UnSparse(s)  == [k \in {s[i][1] : i \in Idx(s)} |->
                   s[CHOOSE i \in Idx(s) : s[i][1] = k][2]]
UnSig(g)     == [by |-> g.by, ok |-> g.ok, tag |-> g.tag]
UnVal(v)     == [c |-> v.c, n |-> v.n]
UnSlot(p)    == [v |-> UnVal(p.v), sig |-> UnSig(p.sig)]
UnSlots(s)   == [k \in {s[i][1] : i \in Idx(s)} |->
                   UnSlot(s[CHOOSE i \in Idx(s) : s[i][1] = k][2])]
UnLive(x)    == [id \in {x[i].id : i \in Idx(x)} |->
                   UnSlots(x[CHOOSE i \in Idx(x) : x[i].id = id].s)]
UnImpact(x)  == [id \in {x[i].id : i \in Idx(x)} |->
                   UnSparse(x[CHOOSE i \in Idx(x) : x[i].id = id].s)]
UnAuth(a)    == [id |-> a.id, key |-> a.key, cap |-> a.cap, rest |-> a.rest,
                 sig |-> UnSig(a.sig)]
UnEquip(x)   == [id \in {x[i].id : i \in Idx(x)} |->
                   UnAuth(x[CHOOSE i \in Idx(x) : x[i].id = id])]
UnBans(b)    == {b[i] : i \in Idx(b)}
UnVals(s)    == [k \in {s[i][1] : i \in Idx(s)} |->
                   UnVal(s[CHOOSE i \in Idx(s) : s[i][1] = k][2])]
UnDev(d)     == [key |-> d.key, out |-> UnVals(d.out), imp |-> UnSparse(d.imp)]
UnWeek(w)    == [off |-> w.off, devs |-> {UnDev(w.devs[j]) : j \in Idx(w.devs)},
                 sigok |-> w.sigok]
UnArchive(a) == [i \in Idx(a) |-> UnWeek(a[i])]
UnServer(s)  == [key |-> s.key, banned |-> s.banned, loc |-> s.loc,
                 ports |-> s.ports, sig |-> UnSig(s.sig)]
UnServers(x) == [i \in Idx(x) |-> UnServer(x[i])]
UnMig(m)     == [equip |-> m.equip, newgca |-> m.newgca, newid |-> m.newid,
                 servers |-> UnServers(m.servers), sig |-> UnSig(m.sig)]
UnMigr(x)    == [k \in {x[i].equip : i \in Idx(x)} |->
                   UnMig(x[CHOOSE i \in Idx(x) : x[i].equip = k])]
UnReport(r)  == [id |-> r.id, ts |-> r.ts, v |-> UnVal(r.v), sig |-> UnSig(r.sig)]
UnDatagram(d) == [len |-> d.len, id |-> d.id, ts |-> d.ts, v |-> UnVal(d.v),
                  sig |-> UnSig(d.sig)]
UnDisk(d)    == [keys |-> d.keys, gcafile |-> d.gcafile,
                 auths |-> [i \in Idx(d.auths) |-> UnAuth(d.auths[i])],
                 reports |-> [i \in Idx(d.reports) |-> UnReport(d.reports[i])],
                 stats |-> UnArchive(d.stats)]

HasDisk(p) == "disk" \in DOMAIN p

(* the post state of the event, as values of the specification's variables *)
MatchPost(p) ==
  /\ gca' = [avail |-> p.gca.avail, key |-> p.gca.key]
  /\ equip' = UnEquip(p.equip)
  /\ pkidx' = UnSparse(p.pkidx)
  /\ bans' = UnBans(p.bans)
  /\ offset' = p.offset
  /\ live' = UnLive(p.live)
  /\ impact' = UnImpact(p.impact)
  /\ archive' = UnArchive(p.archive)
  /\ migr' = UnMigr(p.migr)
  /\ IF HasDisk(p) THEN disk' = UnDisk(p.disk) /\ p.disk.tails = <<0, 0, 0>>
     ELSE TRUE

(* internal consistency of a logged state: every stored report sits in the *)
(* slot its own fields name, identity tags of archived records never move  *)
PostSane(p) ==
  /\ \A i \in Idx(p.live) : \A j \in Idx(p.live[i].s) :
        LET e == p.live[i].s[j] IN e[2].rid = p.live[i].id /\ e[2].rts = e[1]
  /\ \A i \in Idx(p.archive) : i <= Len(atag) => p.archive[i].tag = atag[i]

NewTags(p) == [i \in Idx(p.archive) |-> p.archive[i].tag]

IsStrict == Ev.a \in Strict

(* diagnosis of a rejected line: which variables differ, and both values *)
Diag(p) ==
  /\ PrintT(<<"DIAG line", l, Ev.a>>)
  /\ (IF gca' = [avail |-> p.gca.avail, key |-> p.gca.key] THEN TRUE ELSE PrintT(<<"DIAG gca spec", gca'>>))
  /\ (IF equip' = UnEquip(p.equip) THEN TRUE ELSE PrintT(<<"DIAG equip spec", equip', "impl", UnEquip(p.equip)>>))
  /\ (IF pkidx' = UnSparse(p.pkidx) THEN TRUE ELSE PrintT(<<"DIAG pkidx spec", pkidx', "impl", UnSparse(p.pkidx)>>))
  /\ (IF bans' = UnBans(p.bans) THEN TRUE ELSE PrintT(<<"DIAG bans spec", bans', "impl", UnBans(p.bans)>>))
  /\ (IF offset' = p.offset THEN TRUE ELSE PrintT(<<"DIAG offset spec", offset', "impl", p.offset>>))
  /\ (IF live' = UnLive(p.live) THEN TRUE ELSE PrintT(<<"DIAG live spec", live', "impl", UnLive(p.live)>>))
  /\ (IF impact' = UnImpact(p.impact) THEN TRUE ELSE PrintT(<<"DIAG impact spec", impact', "impl", UnImpact(p.impact)>>))
  /\ (IF archive' = UnArchive(p.archive) THEN TRUE ELSE PrintT(<<"DIAG archive spec", archive', "impl", UnArchive(p.archive)>>))
  /\ (IF migr' = UnMigr(p.migr) THEN TRUE ELSE PrintT(<<"DIAG migr spec", migr', "impl", UnMigr(p.migr)>>))
  /\ (IF ~HasDisk(p) \/ disk' = UnDisk(p.disk) THEN TRUE ELSE PrintT(<<"DIAG disk spec", disk', "impl", UnDisk(p.disk)>>))

(* A state changing event with a post state: A is the specification's      *)
(* action (it determines every variable of vars).                          *)
Apply(A) ==
  IF IsStrict
  THEN IF l = DiagLine THEN A /\ Diag(Ev.post) ELSE A /\ MatchPost(Ev.post)
  ELSE /\ MatchPost(Ev.post)
       /\ UNCHANGED <<now, up, servers>>
       /\ (IF HasDisk(Ev.post) THEN TRUE ELSE UNCHANGED disk)
       /\ seen' = [id \in DOMAIN live' |->
                     IF id \in DOMAIN seen
                     THEN Only(seen[id], offset' .. (offset' + Window - 1))
                     ELSE EmptyFn]

Step == l' = l + 1
KeepAux == UNCHANGED <<pend, rot, atag>>
(* one slot per kind of operation in flight, so that operations of different kinds may overlap *)
NoneP == [kind |-> "none"]
NoPend == [reg |-> NoneP, auth |-> <<>>, stats |-> NoneP, batch |-> NoneP, authsrv |-> NoneP,
           migrate |-> NoneP, crashed |-> NoneP, sync |-> NoneP, recent |-> NoneP, credit |-> 0, fault |-> FALSE, polled |-> TRUE]

-----------------------------------------------------------------------------
TReset ==
  /\ Ev.a = "Reset"
  /\ now' = 0 /\ up' = "down"
  /\ gca' = [avail |-> FALSE, key |-> NoKey]
  /\ equip' = EmptyFn /\ pkidx' = EmptyFn /\ bans' = {} /\ offset' = 0
  /\ live' = EmptyFn /\ impact' = EmptyFn /\ archive' = <<>>
  /\ servers' = <<>> /\ migr' = EmptyFn
  /\ disk' = FreshDisk
  /\ seen' = EmptyFn
  /\ pend' = NoPend /\ rot' = "idle" /\ atag' = <<>>

TTick == Ev.a = "Tick" /\ Tick(Ev.t) /\ KeepAux

TStartBegin ==
  /\ Ev.a = "StartBegin"
  /\ IF "Start" \in Strict
     THEN StartLoad
     ELSE /\ up = "down" /\ up' = "catchup"
          \* the authorized-server list and the migration orders are not persisted: a start begins without them
          /\ servers' = <<>> /\ migr' = EmptyFn
          /\ UNCHANGED <<now, gca, equip, pkidx, bans, offset, live, impact,
                         archive, disk, seen>>
  /\ rot' = "idle" /\ pend' = [pend EXCEPT !.polled = FALSE] /\ UNCHANGED atag

TStart ==
  /\ Ev.a = "Start"
  /\ IF Ev.ok
     THEN /\ IF "Start" \in Strict
             THEN StartDone /\ MatchPost(Ev.post)
             ELSE /\ up' = "up"
                  /\ MatchPost(Ev.post)
                  /\ UNCHANGED <<now, servers>>
                  /\ (IF HasDisk(Ev.post) THEN TRUE ELSE UNCHANGED disk)
                  /\ seen' = [id \in DOMAIN live' |->
                                IF id \in DOMAIN seen
                                THEN Only(seen[id], offset' .. (offset' + Window - 1))
                                ELSE EmptyFn]
          /\ PostSane(Ev.post)
          /\ atag' = NewTags(Ev.post)
     ELSE /\ IF "Start" \in Strict THEN StartFailed
             ELSE /\ up' = "down"
                  /\ UNCHANGED <<now, gca, equip, pkidx, bans, offset, live,
                                 impact, archive, servers, migr, disk, seen>>
          /\ UNCHANGED atag
  /\ pend' = [pend EXCEPT !.crashed = NoneP] /\ UNCHANGED rot

TClose ==
  /\ Ev.a = "Close"
  /\ Close
  /\ ("Close" \in Strict => Ev.panic = "" /\ ~Ev.hang)
  \* the rotation thread polls right after the start-up catch-up (which stops below CatchUpBound, above the
  \* trigger): a server that was started has polled at least once by the time it is closed
  /\ ("RotFirstPoll" \in Strict /\ up = "up" => pend.polled)
  /\ KeepAux

(* The start-up loop's poll is also the first observation of the state that *)
(* was loaded from disk.                                                    *)
TCatchUpPoll ==
  /\ Ev.a = "CatchUpPoll"
  /\ ("Rotate" \in Strict => up = "catchup" /\ Ev.ero = offset /\ rot = "idle")
  /\ rot' = IF CatchUpDue(Ev.ero, Ev.t) THEN "due" ELSE "idle"
  /\ IF "Start" \in Strict
     THEN IF l = DiagLine THEN UNCHANGED vars /\ Diag(Ev.post)
          ELSE UNCHANGED vars /\ MatchPost(Ev.post)
     ELSE /\ MatchPost(Ev.post)
          /\ UNCHANGED <<now, up, servers>>
          /\ (IF HasDisk(Ev.post) THEN TRUE ELSE UNCHANGED disk)
          /\ seen' = IF HasDisk(Ev.post)
                     THEN SeenFrom(disk'.reports, equip', offset')
                     ELSE [id \in DOMAIN live' |-> EmptyFn]
  /\ PostSane(Ev.post)
  /\ atag' = NewTags(Ev.post)
  /\ UNCHANGED pend

TRotPoll ==
  /\ Ev.a = "RotPoll"
  /\ ("Rotate" \in Strict => Ev.ero = offset /\ rot = "idle")
  /\ rot' = IF RotationDue(Ev.ero, Ev.t) THEN "due" ELSE "idle"
  /\ pend' = [pend EXCEPT !.polled = TRUE]
  /\ UNCHANGED <<vars, atag>>

TRotGo ==
  /\ Ev.a = "RotGo"
  /\ ("Rotate" \in Strict => rot = "due")
  /\ UNCHANGED <<vars, pend, rot, atag>>

TRotForce ==   \* the driver is about to call the rotation itself
  /\ Ev.a = "RotForce"
  /\ rot' = "due"
  /\ UNCHANGED <<vars, pend, atag>>

(* the driver waited 100 poll periods for a rotation that was due *)
TRotationOverdue ==
  /\ Ev.a = "RotationOverdue"
  /\ "Rotate" \notin Strict
  /\ UNCHANGED vars /\ KeepAux

TRotate ==
  /\ Ev.a = "Rotate"
  /\ ("Rotate" \in Strict => rot = "due")
  /\ Apply(Rotate)
  /\ PostSane(Ev.post)
  /\ atag' = NewTags(Ev.post)
  /\ Len(atag') = Len(atag) + 1
  /\ rot' = "idle" /\ UNCHANGED pend

(* The report handler runs for a datagram of exactly 80 bytes read from the socket (UDPRead with   *)
(* n = 80) or handed over by the driver (Direct): pend.credit counts those not yet handled.  A      *)
(* handler run without such a datagram (e.g. for a shorter one, padded) is no behaviour.            *)
Pairing == "UDPPairing" \in Strict
TRecvReport ==
  /\ Ev.a = "RecvReport"
  /\ (IsStrict => Ev.now = now)
  /\ Apply(RecvReport(UnDatagram(Ev.d)))
  /\ PostSane(Ev.post)
  /\ (Pairing => pend.credit > 0)
  /\ pend' = [pend EXCEPT !.credit = IF @ > 0 THEN @ - 1 ELSE 0]
  /\ UNCHANGED <<rot, atag>>

TUDPRead ==
  /\ Ev.a \in {"UDPRead", "DriverNote", "Direct"} /\ UNCHANGED vars
  /\ pend' = [pend EXCEPT !.credit = IF Ev.a = "Direct" \/ (Ev.a = "UDPRead" /\ Ev.n = 80) THEN @ + 1 ELSE @]
  /\ UNCHANGED <<rot, atag>>

(* pend.fault: the driver made the GCA key file unwritable (DiskFault event).  A registration that would *)
(* succeed is then refused and leaves nothing behind, neither on disk nor in memory.                      *)
TDiskFault ==
  /\ Ev.a = "DiskFault" /\ UNCHANGED vars
  /\ pend' = [pend EXCEPT !.fault = Ev.on] /\ UNCHANGED <<rot, atag>>
TRegister ==
  /\ Ev.a = "Register" /\ pend.batch.kind # "batch"
  /\ IF pend.fault /\ RegisterOK(Ev.k, UnSig(Ev.sig))
     THEN /\ Apply(UNCHANGED vars)
          /\ pend' = [pend EXCEPT !.reg = [kind |-> "reg", ok |-> FALSE]]
     ELSE /\ Apply(Register(Ev.k, UnSig(Ev.sig)))
          /\ pend' = [pend EXCEPT !.reg = [kind |-> "reg", ok |-> RegisterOK(Ev.k, UnSig(Ev.sig))]]
  /\ UNCHANGED <<rot, atag>>

TRegisterResp ==
  /\ Ev.a = "RegisterResp"
  /\ ("Register" \in Strict /\ pend.reg.kind = "reg" => (Ev.status = 200) = pend.reg.ok)
  /\ ("Register" \in Strict /\ pend.reg.kind # "reg" => Ev.status # 200)
  /\ pend' = [pend EXCEPT !.reg = NoneP]
  /\ UNCHANGED <<vars, rot, atag>>

TAuthorize ==
  /\ Ev.a = "Authorize"
  /\ Apply(Authorize(UnAuth(Ev.auth)))
  /\ PostSane(Ev.post)
  /\ pend' = [pend EXCEPT !.auth = Put(@, Ev.auth.id, AuthOutcome(UnAuth(Ev.auth)) \in {"new", "same"})]
  /\ UNCHANGED <<rot, atag>>

TAuthorizeResp ==
  /\ Ev.a = "AuthorizeResp"
  /\ ("Authorize" \in Strict /\ Ev.id \in DOMAIN pend.auth => (Ev.status = 200) = pend.auth[Ev.id])
  /\ ("Authorize" \in Strict /\ Ev.id \notin DOMAIN pend.auth => Ev.status # 200)
  /\ pend' = [pend EXCEPT !.auth = Del(@, Ev.id)]
  /\ UNCHANGED <<vars, rot, atag>>

TImpactList ==
  /\ Ev.a \in {"ImpactList", "AuthzPeers", "AuthSrvListEquip", "QueryEquipment"}
  /\ UNCHANGED vars /\ KeepAux

(* the locked part of the recent-reports handler: a read of one device's window *)
RecentAnswer(key) ==
  IF key \in DOMAIN pkidx /\ pkidx[key] \in DOMAIN live
  THEN [ok |-> TRUE, off |-> offset, slots |-> live[pkidx[key]]]
  ELSE [ok |-> FALSE]
TQueryRecent ==
  /\ Ev.a = "QueryRecent"
  /\ Apply(UNCHANGED vars)
  /\ PostSane(Ev.post)
  /\ pend' = [pend EXCEPT !.recent = [kind |-> "recent", key |-> Ev.key, ans |-> RecentAnswer(Ev.key)]]
  /\ UNCHANGED <<rot, atag>>
(* the reply as decoded by the driver: the device's window by index, signed by the server; a key   *)
(* that is unknown (never authorized, or of banned equipment) or malformed is refused              *)
TRecentResp ==
  /\ Ev.a = "RecentResp"
  /\ ("QueryRecent" \in Strict =>
        IF ~Ev.wellformed THEN Ev.status \in {400, 405}
        ELSE LET exp == IF pend.recent.kind = "recent" /\ pend.recent.key = Ev.key THEN pend.recent.ans
                        ELSE RecentAnswer(Ev.key) IN
             IF ~exp.ok THEN Ev.status = 500
             ELSE /\ Ev.status = 200
                  /\ Ev.sigok
                  /\ LET got == UnSlots(Ev.slots) IN
                     /\ DOMAIN got = {ts - exp.off : ts \in DOMAIN exp.slots}
                     /\ \A ts \in DOMAIN exp.slots : got[ts - exp.off] = exp.slots[ts])
  /\ pend' = [pend EXCEPT !.recent = NoneP]
  /\ UNCHANGED <<vars, rot, atag>>

TImpactSet ==
  /\ Ev.a = "ImpactSet"
  /\ ImpactSet(Ev.id, Ev.ts, Ev.bits)
  /\ KeepAux

(* the locked part of the statistics handler: a read *)
TQueryStats ==
  /\ Ev.a = "QueryStats"
  /\ Apply(UNCHANGED vars)
  /\ PostSane(Ev.post)
  /\ pend' = [pend EXCEPT !.stats = [kind |-> "stats", tso |-> Ev.tso, ans |-> StatsAnswer(Ev.tso)]]
  /\ UNCHANGED <<rot, atag>>

(* the reply as decoded by the driver *)
TStatsResp ==
  /\ Ev.a = "StatsResp"
  /\ ("QueryStats" \in Strict =>
        LET exp == IF pend.stats.kind = "stats" /\ pend.stats.tso = Ev.tso THEN pend.stats.ans
                   ELSE StatsAnswer(Ev.tso)
        IN  IF exp = Refused THEN Ev.status # 200
            ELSE /\ Ev.status = 200
                 /\ Ev.neg \/ UnWeek(Ev.resp) = exp
                 \* an archived week is served with the very same signature forever
                 /\ (~Ev.neg /\ Ev.tso < offset) => Ev.resp.tag = atag[Ev.tso \div WeekLen + 1])
  /\ pend' = [pend EXCEPT !.stats = NoneP]
  /\ UNCHANGED <<vars, rot, atag>>

(* The invariants and step properties selected by the .cfg are evaluated on *)
(* the state reached by every event, inside the step: an event after which *)
(* one of them fails is rejected, exactly like an event whose post state   *)
(* differs from the specification's.                                       *)
BanStickyStep ==
  Ev.a # "Reset" =>
    \A id \in DOMAIN live \cap DOMAIN live' :
      \A ts \in DOMAIN live[id] :
        (live[id][ts].v = One /\ ts >= offset') => Slot(live', id, ts).v = One

ArchiveImmutableStep ==
  Ev.a # "Reset" =>
    \A i \in 1..Len(archive) : i <= Len(archive') /\ archive'[i] = archive[i]

KeyNeverChangesStep ==
  (Ev.a # "Reset" /\ gca.avail /\ up' # "down" /\ up # "down") => gca' = gca

BansMonotoneStep == Ev.a # "Reset" => bans \subseteq bans'

(* C04: what a start on the files would produce equals the memory of the   *)
(* process that wrote them.  Evaluated in the state before a start-up (the  *)
(* state left by the preceding Close); unprimed on purpose, TLC does not    *)
(* cache lazily evaluated arguments of recursive operators in primed        *)
(* expressions.                                                             *)
RestartEquivAtStart ==
  (Ev.a = "StartBegin" /\ disk.keys # "absent" /\ pend.crashed.kind # "crashed") => RestartEquivNow

(* C17, server side: an entry changes only to become banned; banned stays *)
SrvListStep ==
  Ev.a \notin {"Reset", "StartBegin"} =>
    /\ Len(servers') >= Len(servers)
    /\ \A i \in 1..Len(servers) :
          /\ servers'[i].key = servers[i].key
          /\ (servers[i].banned => servers'[i] = servers[i])
          /\ (servers'[i] # servers[i] => servers'[i].banned)
    /\ \A i \in 1..Len(servers') : Valid(servers'[i].sig, gca.key)
    /\ \A i, j \in 1..Len(servers') : servers'[i].key = servers'[j].key => i = j

InvByName(n) ==
  CASE n = "SlotIsFunctionOfSet" -> SlotIsFunctionOfSet'
    [] n = "IndexInBounds"       -> IndexInBounds'
    [] n = "ArchiveContiguous"   -> (up' \notin {"down", "failed"} => ArchiveContiguous')
    [] n = "ArchiveSigned"       -> ArchiveSigned'
    [] n = "SelfConsistent"      -> SelfConsistent'
    [] n = "BannedStaysOut"      -> BannedStaysOut'
    [] n = "NoAuthBeforeRegister" -> NoAuthBeforeRegister'
    [] n = "EquipOnlySigned"     -> EquipOnlySigned'
    [] n = "BanSticky"           -> BanStickyStep
    [] n = "ArchiveImmutable"    -> ArchiveImmutableStep
    [] n = "KeyNeverChanges"     -> KeyNeverChangesStep
    [] n = "BansMonotone"        -> BansMonotoneStep
    [] n = "RestartEquiv"        -> RestartEquivAtStart
    [] n = "SrvList"             -> SrvListStep
    [] n = "StartAlwaysOK"       -> (Ev.a = "DiskIs" => StartOK(disk'))
    [] n = "StillRegistrable"    -> StillRegistrable'

InvCheck ==
  IF l = DiagLine
  THEN \A n \in InvSel : IF InvByName(n) THEN TRUE
                         ELSE /\ PrintT(<<"DIAG invariant fails", n>>)
                              /\ (n = "RestartEquiv" =>
                                    LET a == StripView(RestartView(disk, now))
                                        b == StripView(MemAfterCatchUp(now)) IN
                                    PrintT(<<"DIAG restart view differs in", {f \in DOMAIN a : a[f] # b[f]},
                                             "loaded live", a.live, "memory live", b.live>>))
  ELSE \A n \in InvSel : InvByName(n)

(* /equipment as decoded by the driver *)
TEquipmentResp ==
  /\ Ev.a = "EquipmentResp"
  /\ ("Authorize" \in Strict => Ev.status = 200 /\ UnEquip(Ev.equip) = equip)
  /\ UNCHANGED vars /\ KeepAux

(* the implementation's own consistency check, run by the driver *)
TCheckInv ==
  /\ Ev.a = "CheckInv"
  /\ ("Authorize" \in Strict => Ev.panic = "")
  /\ UNCHANGED vars /\ KeepAux

(* a batch of concurrent registrations: replies are counted, not matched *)
TBatchBegin ==
  /\ Ev.a = "BatchBegin"
  /\ pend' = [pend EXCEPT !.batch = [kind |-> "batch", n |-> 0]]
  /\ UNCHANGED <<vars, rot, atag>>

TRegisterInBatch ==
  /\ Ev.a = "Register" /\ pend.batch.kind = "batch"
  /\ Apply(Register(Ev.k, UnSig(Ev.sig)))
  /\ pend' = [pend EXCEPT !.batch.n = @ + (IF RegisterOK(Ev.k, UnSig(Ev.sig)) THEN 1 ELSE 0)]
  /\ UNCHANGED <<rot, atag>>

TBatchEnd ==
  /\ Ev.a = "BatchEnd"
  /\ ("Register" \in Strict => pend.batch.kind = "batch" /\ Ev.n200 = pend.batch.n)
  /\ pend' = [pend EXCEPT !.batch = NoneP]
  /\ UNCHANGED <<vars, rot, atag>>

(* authorized servers: the hook fires under gcaServers.mu on every path that *)
(* passed the signature check                                               *)
TAuthorizeServer ==
  /\ Ev.a = "AuthorizeServer"
  /\ IF IsStrict
     THEN /\ AuthorizeServer(UnServer(Ev.as))
          /\ Valid(UnSig(Ev.as.sig), gca.key)
          /\ (l = DiagLine \/ servers' = UnServers(Ev.servers))
          /\ (IF l # DiagLine THEN TRUE ELSE PrintT(<<"DIAG servers spec", servers', "impl", UnServers(Ev.servers)>>))
     ELSE /\ servers' = UnServers(Ev.servers)
          /\ UNCHANGED <<now, up, gca, equip, pkidx, bans, offset, live, impact,
                         archive, migr, disk, seen>>
  /\ pend' = [pend EXCEPT !.authsrv = [kind |-> "authsrv"]]
  /\ UNCHANGED <<rot, atag>>

TAuthorizeServerResp ==
  /\ Ev.a = "AuthorizeServerResp"
  /\ ("AuthorizeServer" \in Strict =>
        IF pend.authsrv.kind = "authsrv" THEN Ev.status = 200
        ELSE Ev.status # 200 /\ ~Valid(UnSig(Ev.as.sig), gca.key))
  /\ pend' = [pend EXCEPT !.authsrv = NoneP]
  /\ UNCHANGED <<vars, rot, atag>>

TServersResp ==
  /\ Ev.a = "ServersResp"
  /\ ("AuthorizeServer" \in Strict => Ev.status = 200 /\ UnServers(Ev.servers) = servers)
  /\ UNCHANGED vars /\ KeepAux

TMigrate ==
  /\ Ev.a = "Migrate"
  /\ (IsStrict => MigrationOK(UnMig(Ev.m)))
  /\ Apply(Migrate(UnMig(Ev.m)))
  /\ pend' = [pend EXCEPT !.migrate = [kind |-> "migrate"]]
  /\ UNCHANGED <<rot, atag>>

TMigrateResp ==
  /\ Ev.a = "MigrateResp"
  /\ ("Migrate" \in Strict =>
        IF pend.migrate.kind = "migrate" THEN Ev.status = 200
        ELSE Ev.status # 200 /\ ~MigrationOK(UnMig(Ev.m)))
  /\ pend' = [pend EXCEPT !.migrate = NoneP]
  /\ UNCHANGED <<vars, rot, atag>>

(* C05.  The process was killed (at an armed crash point or by SIGKILL).    *)
(* DiskIs carries the decoded files as the next start will find them.  The  *)
(* durable prefix rule: the files are those of the completed operations,    *)
(* plus at most the one write that was in flight; records are never torn.   *)
OneMore(a, b) == b = a \/ (Len(b) = Len(a) + 1 /\ SubSeq(b, 1, Len(a)) = a)
TCrash ==
  /\ Ev.a = "Crash"
  /\ up' = "down"
  /\ UNCHANGED <<now, gca, equip, pkidx, bans, offset, live, impact, archive, servers, migr, disk, seen>>
  /\ pend' = [pend EXCEPT !.crashed = [kind |-> "crashed", phase |-> up]] /\ UNCHANGED <<rot, atag>>
TDiskIs ==
  /\ Ev.a = "DiskIs"
  /\ LET r == UnDisk(Ev.disk) IN
     /\ disk' = r
     /\ ("Start" \in Strict /\ ~Ev.edited =>
           /\ Ev.disk.tails = <<0, 0, 0>>
           /\ OneMore(disk.auths, r.auths) /\ OneMore(disk.reports, r.reports) /\ OneMore(disk.stats, r.stats)
           /\ (r.gcafile = disk.gcafile \/ disk.gcafile \in {"absent", "empty"})
           /\ \/ r.keys = disk.keys \/ disk.keys \in {"absent", "empty"}
              \* killed inside the very first start: the key file was created, not yet written
              \/ (pend.crashed.kind = "crashed" /\ pend.crashed.phase = "catchup" /\ r.keys = "empty"
                    /\ r.auths = <<>> /\ r.gcafile = "absent")
           \* at most one write was in flight
           /\ Cardinality({f \in {"auths", "reports", "stats", "gcafile"} :
                             CASE f = "auths" -> r.auths # disk.auths
                               [] f = "reports" -> r.reports # disk.reports
                               [] f = "stats" -> r.stats # disk.stats
                               [] f = "gcafile" -> r.gcafile # disk.gcafile}) <= 1)
  /\ UNCHANGED <<now, up, gca, equip, pkidx, bans, offset, live, impact, archive, servers, migr, seen>>
  /\ KeepAux

(* an HTTP request that does not pass validation, the liveness probe that   *)
(* follows every input, and shutdown with connections left open            *)
THttp ==
  /\ Ev.a = "Http"
  /\ ("Http" \in Strict =>
        /\ ~Ev.panic                                  \* no handler panic was logged
        /\ Ev.status \in HttpExpected(Ev.ep, Ev.method, Ev.cls)
        /\ Ev.probe = 200)                            \* other requests keep being answered
  /\ UNCHANGED vars /\ KeepAux
TConns ==
  /\ Ev.a = "Conns"     \* the driver left TCP connections idle / half sent
  /\ UNCHANGED vars /\ KeepAux
TLogPanics ==
  /\ Ev.a = "LogPanics"
  /\ ("Http" \in Strict => Ev.n = 0)
  /\ UNCHANGED vars /\ KeepAux

(* TCP sync: first critical section (device data), second (server list),   *)
(* then the reply as decoded by the harness's reference decoder.           *)
TSyncRead ==
  /\ Ev.a = "SyncRead"
  /\ Apply(UNCHANGED vars)
  /\ pend' = [pend EXCEPT !.sync = [kind |-> "sync", id |-> Ev.id, data |-> SyncData(Ev.id), list |-> <<>>]]
  /\ UNCHANGED <<rot, atag>>

TSyncServers ==
  /\ Ev.a = "SyncServers"
  /\ ("SyncRead" \in Strict => pend.sync.kind = "sync" /\ UnServers(Ev.servers) = servers)
  /\ pend' = IF pend.sync.kind = "sync" THEN [pend EXCEPT !.sync.list = servers] ELSE pend
  /\ UNCHANGED <<vars, rot, atag>>

UnBits(b) == {b[i] : i \in DOMAIN b}
TSyncResp ==
  /\ Ev.a = "SyncResp"
  /\ ("SyncRead" \in Strict =>
        IF pend.sync.kind # "sync" \/ pend.sync.id # Ev.id
        THEN FALSE
        ELSE IF ~pend.sync.data.known THEN Ev.refused
        ELSE /\ ~Ev.refused
             /\ Ev.key = pend.sync.data.key
             /\ Ev.offset = pend.sync.data.offset
             /\ UnBits(Ev.bits) = pend.sync.data.bits
             /\ Ev.mig.present = pend.sync.data.mig.present
             /\ (pend.sync.data.mig.present =>
                    /\ Ev.mig.newgca = pend.sync.data.mig.newgca /\ Ev.mig.newid = pend.sync.data.mig.newid
                    /\ UnSig(Ev.mig.sig) = pend.sync.data.mig.sig
                    /\ UnServers(Ev.servers) = pend.sync.data.migservers)
             /\ (~pend.sync.data.mig.present => UnServers(Ev.servers) = pend.sync.list)
             /\ Ev.listok /\ Ev.sigok /\ Ev.fresh)
  /\ pend' = [pend EXCEPT !.sync = NoneP]
  /\ UNCHANGED <<vars, rot, atag>>

TNext ==
  /\ l <= Len(Trace)
  /\ Step
  /\ \/ TReset \/ TTick \/ TStartBegin \/ TStart \/ TClose
     \/ TCatchUpPoll \/ TRotPoll \/ TRotGo \/ TRotForce \/ TRotate \/ TRotationOverdue
     \/ TRecvReport \/ TUDPRead
     \/ TDiskFault \/ TRegister \/ TRegisterResp \/ TAuthorize \/ TAuthorizeResp
     \/ TImpactList \/ TImpactSet
     \/ TQueryStats \/ TStatsResp \/ TQueryRecent \/ TRecentResp
     \/ TEquipmentResp \/ TCheckInv \/ TBatchBegin \/ TRegisterInBatch \/ TBatchEnd
     \/ TAuthorizeServer \/ TAuthorizeServerResp \/ TServersResp \/ TMigrate \/ TMigrateResp
     \/ TSyncRead \/ TSyncServers \/ TSyncResp \/ THttp \/ TConns \/ TLogPanics \/ TCrash \/ TDiskIs
  /\ InvCheck

TInit ==
  /\ Init
  /\ l = 1 /\ pend = NoPend /\ rot = "idle" /\ atag = <<>>

TSpec == TInit /\ [][TNext]_tvars

(* acceptance: every line was consumed (one state per line plus the initial *)
(* state; every step is deterministic)                                      *)
Accepted == TLCGet("stats").diameter - 1 = Len(Trace)

=============================================================================
