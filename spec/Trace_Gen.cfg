CONSTANTS WeekLen = 2016  Accept = 432  RotTrigger = 3200  CatchUpBound = 4000  CapPct = 135
 Defects = {}
 Strict = {"Register", "Authorize", "RecvReport", "Start", "Close", "UDPPairing"}
 InvSel = {"SelfConsistent", "BannedStaysOut", "BansMonotone", "EquipOnlySigned", "IndexInBounds", "NoAuthBeforeRegister", "KeyNeverChanges"}
 DiagLine = @DiagLine@
SPECIFICATION TSpec
POSTCONDITION Accepted
CHECK_DEADLOCK FALSE
