----------------------------- MODULE MC_Accept -----------------------------
(* Exhaustive check of report acceptance (C01) and of index safety (C12):   *)
(* every datagram from an alphabet chosen relative to the current clock and *)
(* window offset, at every (clock, offset) configuration reachable by clock *)
(* jumps with the background rotation free to lag, including the start-up   *)
(* catch-up phase during which the UDP listener is already live.            *)
EXTENDS Server

CONSTANTS MaxNow, MaxReports

A1 == [id |-> 1, key |-> "d1", cap |-> 100, rest |-> "r",
       sig |-> [by |-> "gca", ok |-> TRUE, tag |-> "a1"]]
A2 == [id |-> 2, key |-> "d2", cap |-> 100, rest |-> "r",
       sig |-> [by |-> "gca", ok |-> TRUE, tag |-> "a2"]]
A2x == [A2 EXCEPT !.rest = "other", !.sig.tag = "a2x"]   \* conflict: id 2 is banned
A4 == [id |-> 4, key |-> "d4", cap |-> 100, rest |-> "r",
       sig |-> [by |-> "gca", ok |-> TRUE, tag |-> "a4"]]

Vals == {Zero, One, Small(2), Small(136), [c |-> "g", n |-> 1]}
Signers == {"d1", "d4", "gca", "srv", "none"}

TsAlphabet == {t \in ((now - Accept - 1) .. (now + Accept + 1)) \cup
                     {offset - 1, offset, offset + Window - 1, offset + Window,
                      offset + Window + 1} : t >= 0}

Datagrams ==
  [len : {80}, id : {1, 2, 3}, ts : TsAlphabet, v : Vals,
   sig : {[by |-> s, ok |-> o, tag |-> "t"] : s \in Signers, o \in BOOLEAN}]
  \cup {[len |-> 79, id |-> 1, ts |-> now, v |-> Small(2),
         sig |-> [by |-> "d1", ok |-> TRUE, tag |-> "t"]]}

MCInit ==
  /\ now = 0 /\ up = "up"
  /\ gca = [avail |-> TRUE, key |-> "gca"]
  /\ equip = (1 :> A1) @@ (4 :> A4)
  /\ pkidx = ("d1" :> 1) @@ ("d4" :> 4)
  /\ bans = {2} /\ offset = 0
  /\ live = (1 :> EmptyFn) @@ (4 :> EmptyFn)
  /\ impact = (1 :> EmptyFn) @@ (4 :> EmptyFn)
  /\ archive = <<>> /\ servers = <<>> /\ migr = EmptyFn
  /\ disk = [keys |-> "ok", gcafile |-> "gca", auths |-> <<A1, A2, A2x, A4>>,
             reports |-> <<>>, stats |-> <<>>]
  /\ seen = (1 :> EmptyFn) @@ (4 :> EmptyFn)

Recv(d) ==
  \* the array access of integrateReport must be inside the array (C12)
  /\ Assert(RecvStep(d) = "integrate" => IndexOK(d.ts, offset), "IndexInBounds")
  /\ RecvReport(d)
  \* C01: a datagram that is not acceptable leaves every observable unchanged
  /\ Assert(Acceptable(d) \/ (live' = live /\ disk' = disk /\ archive' = archive),
            "OnlyAcceptableChange")
  \* and an acceptable one for an empty slot is recorded
  /\ Assert((Acceptable(d) /\ Slot(live, d.id, d.ts).v = Zero) =>
              Slot(live', d.id, d.ts).v # Zero, "AcceptableRecorded")

MCNext ==
  \/ \E d \in Datagrams : (Acceptable(d) => Len(disk.reports) < MaxReports) /\ Recv(d)
  \/ \E j \in {1, WeekLen, Window} : now + j <= MaxNow /\ Tick(now + j)
  \/ (up = "up" /\ RotationDue(offset, now) /\ Rotate)
  \/ (up = "catchup" /\ CatchUpDue(offset, now) /\ Rotate)
  \/ Close \/ StartLoad \/ StartDone

MCSpec == MCInit /\ [][MCNext]_vars

(* the rotation is never so late that an acceptable timeslot falls off the  *)
(* end of the window: with the thread running, now - offset stays small     *)
MCView == <<now, up, offset, live, archive, bans, equip, DiskView>>
=============================================================================
