---------------------------- MODULE MC_ClientSrv ----------------------------
(* Exhaustive check of the sync round (C11, C17): 1..3 configured servers,   *)
(* every subset banned, every outcome of up to 5 attempts, replies carrying  *)
(* lists (new server, ban, un-ban attempt, changed ports) and migration      *)
(* orders with valid / invalid outer and inner signatures, restarts.  With   *)
(* Conc = 2 two rounds overlap in every possible way (a round waiting for a  *)
(* slow server while the report loop starts the next one).                   *)
EXTENDS Client
CONSTANTS NServers, MaxRounds, Conc
VARIABLE rounds
mvars == <<cvars, svars, rounds>>

Keys == {"s1", "s2", "s3"}
Good(k) == [by |-> k, ok |-> TRUE, tag |-> "t"]
Bad == [by |-> "x1", ok |-> TRUE, tag |-> "t"]
E(key, banned, port, sig) == [key |-> key, banned |-> banned, loc |-> "l", ports |-> <<port, 1, 1>>, sig |-> sig]
Lists == {<<>>, <<E("s4", FALSE, 1, Good("gca"))>>, <<E("s1", TRUE, 1, Good("gca"))>>,
          <<E("s1", FALSE, 2, Good("gca"))>>,                              \* changed ports / un-ban attempt
          <<E("s2", TRUE, 9, Good("gca")), E("s2", FALSE, 1, Good("gca"))>>, \* ban then stale entry
          <<E("s4", FALSE, 1, Bad)>>, <<E("s1", TRUE, 1, Good("gca2"))>>}
NoMig == [present |-> FALSE, newgca |-> "none", newid |-> 0, sig |-> [by |-> "none", ok |-> FALSE, tag |-> "none"]]
Migs == {NoMig, [present |-> TRUE, newgca |-> "gca2", newid |-> 9, sig |-> Good("gca")],
         [present |-> TRUE, newgca |-> "gca2", newid |-> 9, sig |-> Good("gca2")],
         [present |-> TRUE, newgca |-> "gca2", newid |-> 9, sig |-> Bad]}
MigLists == {<<>>, <<E("n1", FALSE, 1, Good("gca2"))>>, <<E("n1", FALSE, 1, Good("gca"))>>,
             <<E("n1", FALSE, 1, Good("gca2")), E("n2", TRUE, 1, Good("gca2"))>>}
Replies ==
  {[len |-> 712, key |-> "dev", offset |-> 0, bits |-> {}, mig |-> m,
    servers |-> l, listok |-> TRUE, time |-> "fresh", sig |-> g]
     : m \in Migs, l \in Lists \cup MigLists, g \in {Good("s1"), Good("s2"), Good("s3"), Bad}}

Cfg(n, banned) == [k \in {x \in Keys : (x = "s1") \/ (x = "s2" /\ n >= 2) \/ (x = "s3" /\ n >= 3)} |->
                     [banned |-> k \in banned, loc |-> "l", ports |-> <<1, 1, 1>>]]

MCInit ==
  /\ CInit
  /\ \E n \in 1..NServers : \E b \in SUBSET Keys :
        /\ csrv = Cfg(n, b) /\ cdisk = [gca |-> "gca", id |-> 1, srv |-> Cfg(n, b)]
        /\ primary \in DOMAIN Cfg(n, b) \cup {"zero"}
        /\ (primary = "zero") = (\A k \in DOMAIN Cfg(n, b) : Cfg(n, b)[k].banned)
        /\ (primary # "zero" => ~Cfg(n, b)[primary].banned)
  /\ cgca = "gca" /\ cid = 1 /\ mutex = "free" /\ rnd = Idle /\ rounds = 0

Step(A) == A /\ UNCHANGED <<cvars, rounds>>
Active == IF Conc = 1 THEN {"r1"} ELSE {"r1", "r2"}
MCNext ==
  \/ \E x \in Active : (rounds < MaxRounds /\ rounds' = rounds + 1 /\ RoundBegin(x) /\ UNCHANGED cvars)
  \/ \E x \in Active : \E k \in Keys \cup {"s4", "n1", "n2"} :
        Step(Pick(x, k)) /\ Assert(~csrv[k].banned, "NeverSelectBanned")
  \/ \E x \in Active : Step(AttemptFailed(x))
  \/ \E x \in Active : Step(GiveUp(x))
  \/ \E x \in Active : \E r \in Replies :
        /\ Step(ApplyReply(x, r))
        \* C17: identity changes only on a migration order for this device signed by the CURRENT GCA,
        \* with every new server signed by the new GCA (also when rounds overlap)
        /\ Assert(cgca' # cgca =>
                    r.mig.present /\ SValid(r.mig.sig, cgca) /\
                    \A i \in 1..Len(r.servers) : SValid(r.servers[i].sig, r.mig.newgca),
                  "MigrateOnlyIfDoublySigned")
        \* C17: a server enters the list only with the current GCA's signature
        /\ Assert(\A k \in DOMAIN csrv' \ DOMAIN csrv :
                    \E i \in 1..Len(r.servers) :
                      r.servers[i].key = k /\ SValid(r.servers[i].sig, IF r.mig.present /\ r.mig.newgca # cgca THEN r.mig.newgca ELSE cgca),
                  "ListOnlyBySignature")
  \/ \E x \in Active : \E r \in Replies : Step(DiscardStale(x, r))
  \/ \E k \in Keys \cup {"zero", "s4", "n1", "n2"} : AllIdle /\ ClientReload(k) /\ UNCHANGED <<cvars, rounds>>
MCSpec == MCInit /\ [][MCNext]_mvars

BannedMonotone == [][BannedMonotoneStep]_mvars
EntryFrozenUnlessBan == [][EntryFrozenStep]_mvars
DiskBannedMonotone == [][DiskBannedMonotoneStep]_mvars
NeverSelectBanned == [][NeverSelectBannedStep]_mvars
=============================================================================
