---------------------------- MODULE MC_EventLog ----------------------------
(* All histories of Printf / ExpireLogs / Dump over a small alphabet of     *)
(* lines (lengths 0..2*MaxLine), non-decreasing clock, several sizes.       *)
EXTENDS EventLog

CONSTANTS Expiry, MaxTime, MaxOps

VARIABLES clock, ops
mvars == <<vars, clock, ops>>

Lines == {<<>>, <<1>>, <<2>>, <<1, 1>>, <<1, 2>>, <<1, 2, 1>>, <<1, 2, 2>>, <<2, 2, 2, 2>>,
          <<1, 2, 1, 1, 1>>, <<1, 2, 1, 2, 2, 2>>}

MCInit == Init /\ clock = 0 /\ ops = 0

Advance(t) == t \in clock .. MaxTime

DoPrintf ==
  \E line \in Lines : \E t \in clock .. MaxTime :
    /\ Printf(line, t, t - Expiry)
    /\ clock' = t
    \* NewestKept: the line just logged is retained whenever it can be stored at all
    /\ Assert(Sz(Trunc(line)) <= MaxBytes => (panic' \/ Trunc(line) \in DOMAIN lines'), "NewestKept")
    \* EvictOldestFirstMinimal: every surviving line is at least as recent as every evicted one,
    \* and the eviction stopped as soon as the new line fitted: before the last (most
    \* recent) evicted line was removed there was not enough room
    /\ Assert(panic' \/ last' # "stored" \/
              LET before == ExpireOf(lines, t - Expiry)
                  gone == DOMAIN before \ DOMAIN lines'
                  kept == DOMAIN lines' \ {Trunc(line)}
              IN  /\ \A g \in gone : \A k \in kept :
                        ~(before[k][Len(before[k])] < before[g][Len(before[g])])
                  /\ (gone = {} \/
                      \E g \in gone :
                        /\ \A h \in gone : ~(before[g][Len(before[g])] < before[h][Len(before[h])])
                        /\ RealSize(lines') + Sz(g) > MaxBytes),
              "EvictOldestFirstMinimal")

DoExpire ==
  \E cut \in 0 .. MaxTime : Expire(cut) /\ UNCHANGED clock

DoDump ==
  \E t \in clock .. MaxTime : Dump(t - Expiry) /\ clock' = t

MCNext == ops < MaxOps /\ ops' = ops + 1 /\ (DoPrintf \/ DoExpire \/ DoDump)
MCSpec == MCInit /\ [][MCNext]_mvars
=============================================================================
