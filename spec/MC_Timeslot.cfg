CONSTANTS Word = 256  SlotLen = @SlotLen@  Genesis = 10  AcceptW = 4  TDefects = @TDefects@
INIT Init
NEXT Next
INVARIANTS AllRoundTrip AllMonotone AllRefused AllExact AllWindow
