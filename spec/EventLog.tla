------------------------------ MODULE EventLog ------------------------------
(***************************************************************************)
(* glow.EventLogger: a bounded in-memory log of distinct lines, each with  *)
(* the times it was logged.  One action per exported call (each is one     *)
(* critical section, preceded by the expiry section Printf and Dump run    *)
(* first).                                                                 *)
(*                                                                         *)
(* A line is a sequence of characters (small integers); its stored size is *)
(* twice its length.  Times are integers; cut = now - expiry is passed     *)
(* along with now so that traces can use order-preserving ranks of the     *)
(* real nanosecond clock.                                                  *)
(***************************************************************************)
EXTENDS Integers, Sequences, FiniteSets, TLC, SequencesExt, FiniteSetsExt

CONSTANTS MaxBytes, MaxLine, Defects

VARIABLES lines,   \* stored line -> sequence of update times (ascending)
          size,    \* accounted size
          panic,   \* the call indexed an empty slice
          last     \* ghost: outcome of the last Printf
vars == <<lines, size, panic, last>>

Trunc(s) == IF Len(s) > MaxLine THEN SubSeq(s, 1, MaxLine) ELSE s
Sz(k) == 2 * Len(k)
Newest(k) == lines[k][Len(lines[k])]
RealSize(ls) == FoldSet(LAMBDA k, acc : acc + Sz(k), 0, DOMAIN ls)

(* ExpireLogs(cut): drop update times before cut, drop lines left without  *)
(* any and release their size.                                             *)
ExpireOf(ls, cut) ==
  LET kept(k) == SelectSeq(ls[k], LAMBDA t : ~(t < cut))
      keep == {k \in DOMAIN ls : kept(k) # <<>>}
  IN  [k \in keep |-> kept(k)]

ExpiredSize(ls, cut) ==
  IF "expiresize" \in Defects THEN 0
  ELSE RealSize(ls) - RealSize(ExpireOf(ls, cut))

Expire(cut) ==
  /\ lines' = ExpireOf(lines, cut)
  /\ size' = size - ExpiredSize(lines, cut)
  /\ UNCHANGED <<panic, last>>

(* The eviction of Printf: least recently updated lines first, only as far *)
(* as needed.  Among lines with equal newest update the order is not       *)
(* determined (unstable sort): Evictions is the set of possible results.   *)
PanicMark == <<99>>
RECURSIVE EvictSets(_, _, _)
EvictSets(ls, sz, need) ==
  \* the set of possible sets of evicted keys
  IF need + sz <= MaxBytes THEN {{}}
  ELSE IF DOMAIN ls = {} THEN {{PanicMark}}
  ELSE LET oldest == {k \in DOMAIN ls : \A j \in DOMAIN ls : ~(Newest(j) < Newest(k))}
       IN  UNION {{ {k} \cup r : r \in EvictSets([x \in DOMAIN ls \ {k} |-> ls[x]], sz - Sz(k), need) }
                  : k \in oldest}

RealSizeOf(S) == FoldSet(LAMBDA k, acc : acc + Sz(k), 0, S)

Printf(line, now, cut) ==
  LET ls  == ExpireOf(lines, cut)
      sz0 == size - ExpiredSize(lines, cut)
      key == Trunc(line)
  IN  IF Sz(key) > MaxBytes
      THEN /\ lines' = ls /\ size' = sz0 /\ last' = "toobig" /\ UNCHANGED panic
      ELSE IF key \in DOMAIN ls
      THEN /\ lines' = [ls EXCEPT ![key] = Append(@, now)]
           /\ size' = sz0 /\ last' = "repeat" /\ UNCHANGED panic
      ELSE \E ev \in EvictSets(ls, sz0, Sz(key)) :
             IF PanicMark \in ev
             THEN /\ panic' = TRUE /\ lines' = ls /\ size' = sz0 /\ last' = "panic"
             ELSE /\ lines' = [k \in (DOMAIN ls \ ev) \cup {key} |->
                                 IF k = key THEN <<now>> ELSE ls[k]]
                  /\ size' = sz0 - RealSizeOf(ev) + Sz(key)
                  /\ last' = "stored" /\ UNCHANGED panic

(* DumpLogEntries: expiry, then the lines ordered by newest update.        *)
Dump(cut) == Expire(cut)
DumpOrderOK(order, ls) ==
  /\ Len(order) = Cardinality(DOMAIN ls)
  /\ {order[i] : i \in 1..Len(order)} = DOMAIN ls
  /\ \A i, j \in 1..Len(order) : i < j => ~(ls[order[j]][Len(ls[order[j]])] < ls[order[i]][Len(ls[order[i]])])

Init == lines = <<>> /\ size = 0 /\ panic = FALSE /\ last = "none"

-----------------------------------------------------------------------------
SizeExact   == size = RealSize(lines)
SizeBounded == RealSize(lines) <= MaxBytes
NoPanic     == ~panic
LinesCut    == \A k \in DOMAIN lines : Len(k) <= MaxLine
TimesSorted == \A k \in DOMAIN lines : lines[k] # <<>> /\
                 \A i \in 1..(Len(lines[k]) - 1) : ~(lines[k][i + 1] < lines[k][i])
=============================================================================
