------------------------------- MODULE Energy -------------------------------
(***************************************************************************)
(* How the client turns the meter's energy file into report values          *)
(* (staticReadEnergyFile) and how it reads its calibration file            *)
(* (readCTSettingsFile).                                                   *)
(*                                                                         *)
(* A file is a sequence of abstract rows                                   *)
(*   [nf  |-> number of fields, 0 for a row the CSV reader cannot parse    *)
(*            (bare quote),                                                *)
(*    ts  |-> [c |-> "header" | "garbage" | "pre" | "ok", slot |-> Int],   *)
(*    rd  |-> [c |-> "garbage" | "num" | "special", n |-> Int, k |-> Int]] *)
(* a "num" reading is the dyadic rational n / 2^k; "special" readings      *)
(* (NaN, Inf, out of range after scaling) only have to be survived.        *)
(* The CSV reader fixes the field count with the first row; a row with a   *)
(* different count, or an unparsable row, ends the read.                   *)
(***************************************************************************)
EXTENDS Integers, Sequences, TLC

CONSTANTS EDefects

Pow2(k) == IF k = 0 THEN 1 ELSE IF k = 1 THEN 2 ELSE IF k = 2 THEN 4 ELSE IF k = 3 THEN 8
           ELSE IF k = 4 THEN 16 ELSE IF k = 5 THEN 32 ELSE 64
Abs(x) == IF x < 0 THEN -x ELSE x
TruncDiv(a, b) == \* truncation toward zero, b # 0
  LET q == Abs(a) \div Abs(b) IN IF (a < 0) = (b < 0) THEN q ELSE -q

(* the value rule; mult and div are integers here *)
Value(rd, mult, div) ==
  IF rd.c = "garbage" THEN [c |-> "v", n |-> 3]
  ELSE IF rd.c = "special" THEN [c |-> "any", n |-> 0]
  ELSE IF rd.c = "bigint" THEN (IF mult = div /\ div # 0 THEN [c |-> "bigs", n |-> 0, s |-> rd.s] ELSE [c |-> "any", n |-> 0])
  ELSE IF Abs(rd.n) < 24 * Pow2(rd.k) THEN [c |-> "v", n |-> 2]      \* |reading| < 24
  ELSE IF div = 0 THEN [c |-> "any", n |-> 0]
  ELSE [c |-> "v", n |-> TruncDiv(mult * rd.n, div * Pow2(rd.k))]

(* index of the first row that ends the read, Len+1 if none *)
RECURSIVE StopAt(_, _, _)
StopAt(rows, i, nf0) ==
  IF i > Len(rows) THEN i
  ELSE IF rows[i].nf = 0 \/ rows[i].nf # nf0 THEN i
  ELSE StopAt(rows, i + 1, nf0)

Consumed(rows) ==
  IF rows = <<>> THEN <<>>
  ELSE IF rows[1].nf = 0 THEN <<>>
  ELSE SubSeq(rows, 1, StopAt(rows, 1, rows[1].nf) - 1)

(* a consumed row with fewer than two fields: the repaired code skips it;  *)
(* the deviation "onecol" indexes the missing field                        *)
RowPanics(r) == "onecol" \in EDefects /\ r.nf < 2 /\ r.ts.c = "ok"

RECURSIVE Records(_, _, _)
Records(rows, mult, div) ==
  IF rows = <<>> THEN <<>>
  ELSE LET r == Head(rows)
           rest == Records(Tail(rows), mult, div)
       IN  IF r.ts.c # "ok" \/ r.nf < 2 THEN rest
           ELSE <<[slot |-> r.ts.slot, val |-> Value(r.rd, mult, div)]>> \o rest

Panics(rows) == \E i \in 1..Len(Consumed(rows)) : RowPanics(Consumed(rows)[i])
ReadFile(rows, mult, div) == Records(Consumed(rows), mult, div)

(* calibration file: a sequence of lines; an absent file gives the defaults *)
(* line classes: [c |-> "num", v |-> Int] | [c |-> "garbage"]              *)
Calibration(absent, file, dm, dd) ==
  IF absent THEN [ok |-> TRUE, mult |-> dm, div |-> dd]
  ELSE IF Len(file) < 2 THEN [ok |-> FALSE, mult |-> 0, div |-> 0]
  ELSE IF file[1].c # "num" \/ file[2].c # "num" THEN [ok |-> FALSE, mult |-> 0, div |-> 0]
  ELSE [ok |-> TRUE, mult |-> file[1].v, div |-> file[2].v]
=============================================================================
