------------------------------- MODULE Archive -------------------------------
(***************************************************************************)
(* The public archive download (ArchiveHandler).  The server's files are   *)
(* append-only sequences of records written with single writes (the GCA    *)
(* key file is written once); the handler reads the public files one after *)
(* the other, without any lock, in the order ArchiveOrder (taken from the  *)
(* code's PublicFiles), then the server's public key.  Writers run         *)
(* concurrently.                                                           *)
(*   auths   : sequence of [id, by]      (by = the GCA key that signed)    *)
(*   reports : sequence of [id]          (device that signed)              *)
(*   stats   : sequence of week numbers                                    *)
(*   gca     : "absent" | key                                              *)
(***************************************************************************)
EXTENDS Integers, Sequences, FiniteSets, TLC

CONSTANTS ArchiveOrder   \* e.g. <<"stats", "reports", "auths", "gca", "temp">>

VARIABLES files,    \* [auths, reports, stats, gca]
          pos,      \* how many files of ArchiveOrder the reader has copied
          arc,      \* what it copied: [auths, reports, stats, gca] (gca "unread" until read)
          bursts    \* number of write bursts so far
vars == <<files, pos, arc, bursts>>

Unread == [auths |-> <<>>, reports |-> <<>>, stats |-> <<>>, gca |-> "unread"]

Init == /\ files = [auths |-> <<>>, reports |-> <<>>, stats |-> <<>>, gca |-> "absent"]
        /\ pos = 0 /\ arc = Unread /\ bursts = 0

(* write bursts *)
Register == files.gca = "absent" /\ files' = [files EXCEPT !.gca = "gca"]
NewDevice(id) == files.gca # "absent" /\ ~(\E i \in 1..Len(files.auths) : files.auths[i].id = id)
                 /\ files' = [files EXCEPT !.auths = Append(@, [id |-> id, by |-> files.gca])]
Report(id) == (\E i \in 1..Len(files.auths) : files.auths[i].id = id)
              /\ files' = [files EXCEPT !.reports = Append(@, [id |-> id])]
Rotate == files' = [files EXCEPT !.stats = Append(@, Len(@))]

(* the reader copies the next file *)
ReadNext ==
  /\ pos < Len(ArchiveOrder)
  /\ pos' = pos + 1
  /\ LET f == ArchiveOrder[pos + 1] IN
     arc' = CASE f = "auths" -> [arc EXCEPT !.auths = files.auths]
              [] f = "reports" -> [arc EXCEPT !.reports = files.reports]
              [] f = "stats" -> [arc EXCEPT !.stats = files.stats]
              [] f = "gca" -> [arc EXCEPT !.gca = files.gca]
              [] OTHER -> arc
  /\ UNCHANGED <<files, bursts>>

Done == pos = Len(ArchiveOrder)

(* C14 on the finished archive *)
IsPrefix(a, b) == Len(a) <= Len(b) /\ SubSeq(b, 1, Len(a)) = a
RecordAlignedPrefix ==
  /\ IsPrefix(arc.auths, files.auths) /\ IsPrefix(arc.reports, files.reports) /\ IsPrefix(arc.stats, files.stats)
DependencyClosed ==
  Done =>
    /\ \A i \in 1..Len(arc.reports) : \E j \in 1..Len(arc.auths) : arc.auths[j].id = arc.reports[i].id
    /\ \A j \in 1..Len(arc.auths) : arc.gca # "absent" /\ arc.auths[j].by = arc.gca
=============================================================================
