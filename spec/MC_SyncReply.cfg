CONSTANTS CDefects = @CDefects@
INIT Init
NEXT Next
INVARIANTS ParseAgrees NonVacuous
