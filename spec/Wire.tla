-------------------------------- MODULE Wire --------------------------------
(***************************************************************************)
(* The persisted and transmitted structures of gca-backend as data: for    *)
(* every message type the ASCII signing prefix and the sequence of fields  *)
(* <<name, width>> (width in bytes; 0 = variable, given by a preceding     *)
(* length field).  All integers are little-endian.  The serialization is   *)
(* the concatenation of the fields; the signing bytes are the prefix       *)
(* followed by the serialization without the trailing signature.           *)
(***************************************************************************)
EXTENDS Integers, Sequences, FiniteSets, TLC

Types == {"report", "auth", "registration", "server", "migration", "week", "mapentry"}

(* ASCII *)
A(s) == CASE s = "EquipmentReport" -> <<69,113,117,105,112,109,101,110,116,82,101,112,111,114,116>>
          [] s = "EquipmentAuthorization" -> <<69,113,117,105,112,109,101,110,116,65,117,116,104,111,114,105,122,97,116,105,111,110>>
          [] s = "GCARegistration" -> <<71,67,65,82,101,103,105,115,116,114,97,116,105,111,110>>
          [] s = "AuthorizedServer" -> <<65,117,116,104,111,114,105,122,101,100,83,101,114,118,101,114>>
          [] s = "EquipmentMigration" -> <<69,113,117,105,112,109,101,110,116,77,105,103,114,97,116,105,111,110>>
          [] s = "AllDeviceStats" -> <<65,108,108,68,101,118,105,99,101,83,116,97,116,115>>
          [] s = "" -> <<>>

Prefix(t) == CASE t = "report" -> A("EquipmentReport")
               [] t = "auth" -> A("EquipmentAuthorization")
               [] t = "registration" -> A("GCARegistration")
               [] t = "server" -> A("AuthorizedServer")
               [] t = "migration" -> A("EquipmentMigration")
               [] t = "week" -> A("AllDeviceStats")
               [] t = "mapentry" -> A("")

(* fixed-width layouts; the signature is always the last field *)
Layout(t) ==
  CASE t = "report" -> << <<"id", 4>>, <<"ts", 4>>, <<"power", 8>>, <<"sig", 64>> >>
    [] t = "auth" -> << <<"id", 4>>, <<"key", 32>>, <<"lat", 8>>, <<"long", 8>>, <<"cap", 8>>, <<"debt", 8>>,
                        <<"exp", 4>>, <<"init", 4>>, <<"fee", 8>>, <<"sig", 64>> >>
    [] t = "registration" -> << <<"key", 32>>, <<"sig", 64>> >>
    \* variable parts: "loc" has the length given by "loclen"
    [] t = "server" -> << <<"key", 32>>, <<"banned", 1>>, <<"loclen", 1>>, <<"loc", 0>>, <<"http", 2>>, <<"tcp", 2>>, <<"udp", 2>>, <<"sig", 64>> >>
    [] t = "mapentry" -> << <<"key", 32>>, <<"banned", 1>>, <<"loclen", 2>>, <<"loc", 0>>, <<"http", 2>>, <<"tcp", 2>>, <<"udp", 2>> >>
    \* "servers" is a concatenation of server records
    [] t = "migration" -> << <<"equip", 32>>, <<"newgca", 32>>, <<"newid", 4>>, <<"servers", 0>>, <<"sig", 64>> >>
    \* "devices" is count x (key 32 | 2016 x 8 | 2016 x 8)
    [] t = "week" -> << <<"count", 4>>, <<"devices", 0>>, <<"offset", 4>>, <<"sig", 64>> >>

HasSig(t) == t # "mapentry"
FixedLen(t) == LET L == Layout(t) IN
  IF \E i \in 1..Len(L) : L[i][2] = 0 THEN -1
  ELSE LET RECURSIVE Sum(_) Sum(i) == IF i = 0 THEN 0 ELSE L[i][2] + Sum(i - 1) IN Sum(Len(L))

RECURSIVE Concat(_, _, _)
Concat(L, f, i) == IF i > Len(L) THEN <<>> ELSE f[L[i][1]] \o Concat(L, f, i + 1)
Encode(t, f) == Concat(Layout(t), f, 1)
SigningBytes(t, f) == LET e == Encode(t, f) IN Prefix(t) \o SubSeq(e, 1, Len(e) - 64)

WidthsOK(t, f) == \A i \in 1..Len(Layout(t)) :
                    LET w == Layout(t)[i][2] IN w = 0 \/ Len(f[Layout(t)[i][1]]) = w

(* little-endian bytes of a small number *)
RECURSIVE LE(_, _)
LE(v, w) == IF w = 0 THEN <<>> ELSE <<v % 256>> \o LE(v \div 256, w - 1)

IsPrefix(a, b) == Len(a) <= Len(b) /\ SubSeq(b, 1, Len(a)) = a
(* no signing prefix is a prefix of another: two message types never share signing bytes *)
PrefixFree == \A s, t \in Types : (s # t /\ HasSig(s) /\ HasSig(t)) => ~IsPrefix(Prefix(s), Prefix(t))
FixedLens == FixedLen("report") = 80 /\ FixedLen("auth") = 148 /\ FixedLen("registration") = 96
=============================================================================
