---------------------------- MODULE MC_SyncReply ----------------------------
(* Exhaustive evaluation of the client's reply checks over an alphabet of    *)
(* abstract replies: the operational order of checks accepts exactly the     *)
(* authentic replies (C10), every tamper class is rejected.                  *)
EXTENDS Client
VARIABLE x
Sigs(keys) == {[by |-> k, ok |-> o, tag |-> "t"] : k \in keys, o \in BOOLEAN}
SrvEntry(g) == [key |-> "s1", banned |-> FALSE, loc |-> "l", ports |-> <<1, 2, 3>>, sig |-> g]
Lists == {<<>>} \cup {<<SrvEntry(g)>> : g \in Sigs({"gca", "gca2", "x1"})}
             \cup {<<SrvEntry(g), SrvEntry(h)>> : g \in Sigs({"gca", "gca2"}), h \in Sigs({"gca", "gca2"})}
Migs == {[present |-> FALSE, newgca |-> "none", newid |-> 0, sig |-> [by |-> "none", ok |-> FALSE, tag |-> "none"]]}
        \cup {[present |-> TRUE, newgca |-> "gca2", newid |-> 9, sig |-> g] : g \in Sigs({"gca", "gca2", "srv"})}
Replies == [len : {100, 712}, key : {"d1", "d2"}, offset : {0}, bits : {{}}, mig : Migs, servers : Lists,
            listok : BOOLEAN, time : {"fresh", "old", "future"}, sig : Sigs({"srv", "x1", "gca"})]
Ctxs == {[server |-> "srv", gca |-> "gca", dev |-> "d1"]}
Init == x = 0 /\ CInit /\ SInit
Next == UNCHANGED <<x, cvars, svars>>
ParseAgrees == \A r \in Replies : \A c \in Ctxs :
                 /\ (ParseOutcome(r, c) = "ok") = Authentic(r, c)
                 /\ ParseOutcome(r, c) # "PANIC"
NonVacuous == \E r \in Replies : \E c \in Ctxs : ParseOutcome(r, c) = "ok"
=============================================================================
