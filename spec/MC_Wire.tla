------------------------------ MODULE MC_Wire ------------------------------
(* Constant-level checks of the layouts over a small byte alphabet.          *)
EXTENDS Wire
VARIABLE x
Bytes == {0, 1, 255}
Init == x = 0
Next == UNCHANGED x
(* fields of a fixed-width type filled with one byte value each *)
Fill(t, b) == [n \in {Layout(t)[i][1] : i \in 1..Len(Layout(t))} |->
                 LET w == (CHOOSE i \in 1..Len(Layout(t)) : Layout(t)[i][1] = n) IN
                 [k \in 1..Layout(t)[w][2] |-> b[w]]]
Decode(t, bytes) ==   \* split by the layout; only for fixed-width types
  LET L == Layout(t)
      RECURSIVE Off(_)
      Off(i) == IF i = 1 THEN 0 ELSE Off(i - 1) + L[i - 1][2]
  IN  [n \in {L[i][1] : i \in 1..Len(L)} |->
         LET i == CHOOSE i \in 1..Len(L) : L[i][1] = n IN SubSeq(bytes, Off(i) + 1, Off(i) + L[i][2])]
RoundTrip ==
  \A t \in {"report", "registration"} :
    \A b \in [1..Len(Layout(t)) -> Bytes] :
       /\ Len(Encode(t, Fill(t, b))) = FixedLen(t)
       /\ Decode(t, Encode(t, Fill(t, b))) = Fill(t, b)
       /\ SigningBytes(t, Fill(t, b)) = Prefix(t) \o SubSeq(Encode(t, Fill(t, b)), 1, FixedLen(t) - 64)
(* distinct values give distinct signing bytes (injective encoding) *)
Injective ==
  \A t \in {"report", "registration"} :
    \A b1, b2 \in [1..Len(Layout(t)) -> Bytes] :
       (SigningBytes(t, Fill(t, b1)) = SigningBytes(t, Fill(t, b2)))
         => (\A i \in 1..(Len(Layout(t)) - 1) : b1[i] = b2[i])
=============================================================================
