------------------------------- MODULE Sched -------------------------------
(* Design model of the sync scheduling rule (SchedRule.tla): rounds last     *)
(* 1..MaxDur iterations and end with any result.                             *)
EXTENDS SchedRule

(* -------- the design model: rounds last 1..MaxDur iterations and end with  *)
(* any result                                                                *)
CONSTANTS MaxDur, SDefects
VARIABLES ticks, status, flight, zeroRun, quiet
(* flight: set of [id, left] rounds in flight; zeroRun: consecutive          *)
(* iterations that read status 0 without launching; quiet: iterations since  *)
(* the last launch                                                           *)
schvars == <<ticks, status, flight, zeroRun, quiet>>

Ids == 1..8
SInit0 ==
  /\ ticks = StartTicks /\ status \in {0, 1} /\ flight = {} /\ zeroRun = 0 /\ quiet = 0

Rule(t1, st) ==
  IF "noretry" \in SDefects THEN t1 >= SyncEvery
  ELSE IF "mod2" \in SDefects THEN t1 >= SyncEvery \/ (st = 0 /\ t1 % RetryMod = 2 /\ t1 > 100)
  ELSE Decide(t1, st)

Iterate ==
  LET t1 == ticks + 1
      go == Rule(t1, status)
      aged == {[id |-> r.id, left |-> r.left - 1] : r \in {x \in flight : x.left > 1}}
      done == {x \in flight : x.left = 1}
  IN  /\ ticks' = IF go THEN 0 ELSE t1
      /\ zeroRun' = IF go \/ status = 1 THEN 0 ELSE zeroRun + 1
      /\ quiet' = IF go THEN 0 ELSE quiet + 1
      /\ \E d \in 1..MaxDur :
           flight' = aged \cup (IF go THEN {[id |-> CHOOSE i \in Ids : \A r \in flight : r.id # i, left |-> d]} ELSE {})
      \* rounds that end in this iteration store their results in some order: the last store stays
      /\ \E last \in (IF done = {} THEN {status} ELSE {0, 1}) : status' = last
SNext == Iterate
SSpec == SInit0 /\ [][SNext]_schvars

(* a failed round is retried within four iterations *)
RetryWithin4 == zeroRun <= 3
(* a round is started at least every sixty iterations (thirty after a start) *)
SyncWithin60 == quiet <= SyncEvery - 1 /\ ticks <= SyncEvery - 1
(* rounds that last at most MaxDur iterations overlap boundedly *)
BoundedOverlap == Cardinality(flight) <= (MaxDur + RetryMod - 1) \div RetryMod + 1
=============================================================================
