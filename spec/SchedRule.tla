----------------------------- MODULE SchedRule -------------------------------
(* Scheduling of sync rounds by the client's report loop                     *)
(* (client/reports.go threadedSendReports).  The loop counts its iterations  *)
(* in `ticks` (starting at 30).  After every iteration: ticks++, and a round *)
(* is handed to a new goroutine when ticks >= 60, or when the last finished  *)
(* round failed (syncStatus = 0; also at start when last-sync.txt is old or  *)
(* missing) and ticks % 4 = 3; launching resets ticks to 0.  The goroutine   *)
(* stores the round's result in syncStatus (atomic) when the round returns.  *)
(* Rounds are not awaited: a round that takes more than four iterations      *)
(* overlaps with the next one (Client.tla models the overlap).               *)
EXTENDS Naturals, FiniteSets

SyncEvery == 60
RetryMod == 4
RetryAt == 3
StartTicks == 30

Decide(t1, st) == t1 >= SyncEvery \/ (st = 0 /\ t1 % RetryMod = RetryAt)
After(t, st) == IF Decide(t + 1, st) THEN 0 ELSE t + 1
=============================================================================
