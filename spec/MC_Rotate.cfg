CONSTANTS WeekLen = 2  Accept = 1  RotTrigger = 3  CatchUpBound = 4  CapPct = 135
 Defects = @Defects@
 MaxNow = @MaxNow@  MaxReports = @MaxReports@
SPECIFICATION MCSpec
VIEW MCView
INVARIANTS ArchiveContiguous ArchiveSigned QueryAnswer IndexInBounds SelfConsistent SlotIsFunctionOfSet
PROPERTIES ArchiveImmutable
CHECK_DEADLOCK FALSE
