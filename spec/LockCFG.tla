------------------------------- MODULE LockCFG -------------------------------
(***************************************************************************)
(* The lock discipline of gca-backend, checked on EVERY control-flow path  *)
(* of every function that locks, calls or touches shared fields (C11, C13, *)
(* C19).  LockData.tla is generated from the tree under test by            *)
(* harness/cmd/lockcfg: per function the basic blocks with their           *)
(* operations                                                              *)
(*   <<"lock", m, pos>>  <<"unlock", m, pos>>  <<"defer", m, pos>>         *)
(*   <<"call", g, pos>>  <<"acc", field, pos>>                             *)
(* successor blocks and the kind of exit.  TLC walks the interprocedural   *)
(* graph from every root (exported entry points, handlers, goroutine and   *)
(* callback bodies) with the set of held mutexes as state, and reports     *)
(*   relock            a mutex locked while already held (self deadlock)   *)
(*   unlock-unheld     a mutex unlocked that is not held                   *)
(*   held-at-return    a function returns still holding a mutex it locked  *)
(*   netio-under-lock  an outbound network request made while a mutex is held *)
(*   unprotected       a shared field touched on a path where its mutex is *)
(*                     not held (outside construction context)             *)
(* and, as information, nesting edges (for the acyclic lock order) and     *)
(* panic exits taken while a mutex is held.                                *)
(***************************************************************************)
EXTENDS Integers, Sequences, FiniteSets, TLC, LockData

VARIABLES stack, held, root, done
vars == <<stack, held, root, done>>

Frame(f) == [f |-> f, b |-> 1, i |-> 1, acq |-> {}, def |-> {}]
Init == \E r \in Roots : root = r /\ stack = <<Frame(r)>> /\ held = {} /\ done = FALSE

Top == stack[Len(stack)]
Blk == Body(Top.f)[Top.b]
Prot(field) == (CHOOSE p \in ProtectedPairs : p[1] = field)[2]
OnStack(f) == \E k \in 1..Len(stack) : stack[k].f = f
SetTop(fr) == [stack EXCEPT ![Len(stack)] = fr]
Say(kind, a, pos) == PrintT(<<"LOCKCFG", kind, a, pos, "root", root>>)
Quiet(c, kind, a, pos) == IF c THEN Say(kind, a, pos) ELSE TRUE

Exec(o) ==
  LET t == Top IN
  CASE o[1] = "lock" ->
         /\ Quiet(o[2] \in held, "relock", o[2], o[3])
         /\ \A h \in held \ {o[2]} : PrintT(<<"LOCKCFG-EDGE", h, o[2], o[3]>>)
         /\ held' = held \cup {o[2]}
         /\ stack' = SetTop([t EXCEPT !.i = @ + 1, !.acq = @ \cup {o[2]}])
    [] o[1] = "unlock" ->
         /\ Quiet(o[2] \notin held, "unlock-unheld", o[2], o[3])
         /\ held' = held \ {o[2]}
         /\ stack' = SetTop([t EXCEPT !.i = @ + 1, !.acq = @ \ {o[2]}])
    [] o[1] = "defer" ->
         /\ held' = held
         /\ stack' = SetTop([t EXCEPT !.i = @ + 1, !.def = @ \cup {o[2]}])
    [] o[1] = "call" ->
         /\ held' = held
         /\ IF OnStack(o[2]) THEN stack' = SetTop([t EXCEPT !.i = @ + 1])
            ELSE stack' = Append(SetTop([t EXCEPT !.i = @ + 1]), Frame(o[2]))
    [] o[1] = "netio" ->
         \* an outbound request made while a mutex is held: the peer decides how long everybody else waits
         /\ Quiet(held # {}, "netio-under-lock", o[2], o[3])
         /\ \A h \in held : PrintT(<<"LOCKCFG", "netio-holding", h, o[3], "root", root>>)
         /\ held' = held
         /\ stack' = SetTop([t EXCEPT !.i = @ + 1])
    [] o[1] = "acc" ->
         \* construction context: somewhere below a New... function the object is not shared yet
         /\ Quiet(Prot(o[2]) \notin held /\ root \notin Ctors /\ ~(\E k \in 1..Len(stack) : stack[k].f \in News),
                  "unprotected", o[2], o[3])
         /\ held' = held
         /\ stack' = SetTop([t EXCEPT !.i = @ + 1])

Return ==
  LET t == Top
      leak == t.acq \ t.def
      h2 == held \ t.def
  IN  /\ Quiet(leak # {}, "held-at-return", leak, t.f)
      /\ held' = h2
      /\ IF Len(stack) = 1
         THEN /\ done' = TRUE /\ stack' = stack
              /\ Quiet(h2 # {}, "held-at-exit", h2, t.f)
         ELSE /\ done' = FALSE /\ stack' = SubSeq(stack, 1, Len(stack) - 1)

Next ==
  /\ ~done
  /\ root' = root
  /\ IF Top.i <= Len(Blk.ops)
     THEN Exec(Blk.ops[Top.i]) /\ done' = FALSE
     ELSE IF Blk.exit = "return" THEN Return
     ELSE IF Blk.exit = "panic"
          THEN /\ Quiet(held # {}, "panic-while-holding", held, Top.f)
               /\ done' = TRUE /\ UNCHANGED <<stack, held>>
     ELSE IF Blk.succ = {} THEN Return
     ELSE \E s \in Blk.succ :
            /\ stack' = SetTop([Top EXCEPT !.b = s, !.i = 1])
            /\ UNCHANGED <<held, done>>

Spec == Init /\ [][Next]_vars
=============================================================================
