----------------------------- MODULE MC_History -----------------------------
(* Every evolution of the energy file (up to MaxEdits rewrites of up to 3    *)
(* records over 3 slots x 6 values), loop iterations, restarts and           *)
(* retransmissions anywhere.                                                 *)
EXTENDS Client
CONSTANTS MaxEdits, Unfit
VARIABLE edits
mvars == <<cvars, svars, edits>>
Slots == {1, 2, 3}
Vals == {Fit(0), Fit(2), Fit(3), Fit(5), Fit(-5)} \cup
        (IF Unfit THEN {[fit |-> FALSE, n |-> 9, tag |-> "big"]} ELSE {})
Recs == [slot : Slots, val : Vals]
Files == {<<>>} \cup {<<a>> : a \in Recs} \cup {<<a, b>> : a, b \in Recs}

MCInit == CInit /\ edits = 0 /\ horigin' = horigin
MCInit2 == SInit /\ hist = <<>> /\ horigin = 2 /\ latest = 0 /\ efile = <<>> /\ sent = <<>> /\ edits = 0
MCNext ==
  \/ (edits < MaxEdits /\ edits' = edits + 1 /\ \E f \in Files : EditFile(f))
  \/ (LoopIter /\ UNCHANGED edits)
  \/ (ClientRestart /\ UNCHANGED edits)
  \/ (Len(sent) < 4 /\ \E ts \in Slots : Resend(ts) /\ UNCHANGED edits)
MCSpec == MCInit2 /\ [][MCNext /\ UNCHANGED svars]_mvars
Bound == Len(sent) <= 5
OutOfRangeRefused == \A ts \in DOMAIN hist : ts >= horigin
=============================================================================
