CONSTANTS MaxDur = @MaxDur@  SDefects = @SDefects@
SPECIFICATION SSpec
INVARIANTS RetryWithin4 SyncWithin60 BoundedOverlap
CHECK_DEADLOCK FALSE
