INIT Init
NEXT Next
INVARIANTS Acyclic
