------------------------------ MODULE MC_Energy ------------------------------
(* Every file of up to MaxRows rows over the row classes, every calibration  *)
(* class: no panic; the records are the well-formed rows before the stop, in *)
(* order, each with the value the rule gives.                                *)
EXTENDS Energy
CONSTANTS MaxRows
VARIABLE rows
Ts == {[c |-> "header", slot |-> 0], [c |-> "garbage", slot |-> 0], [c |-> "pre", slot |-> 0],
       [c |-> "ok", slot |-> 1], [c |-> "ok", slot |-> 2]}
Rd == {[c |-> "garbage", n |-> 0, k |-> 0], [c |-> "special", n |-> 0, k |-> 0],
       [c |-> "num", n |-> 47, k |-> 1], [c |-> "num", n |-> -48, k |-> 1], [c |-> "num", n |-> 100, k |-> 0]}
Rows == [nf : {0, 1, 2, 3}, ts : Ts, rd : Rd]
Cals == {<<1000, 1000>>, <<-2000, 1000>>, <<1, 0>>, <<3, 7>>}

Init == rows = <<>>
Next == Len(rows) < MaxRows /\ \E r \in Rows : rows' = Append(rows, r)

NoPanic == ~Panics(rows)
Shape ==
  \A cal \in Cals :
    LET recs == ReadFile(rows, cal[1], cal[2])
        good == SelectSeq(Consumed(rows), LAMBDA r : r.ts.c = "ok" /\ r.nf >= 2)
    IN  /\ Len(recs) = Len(good)
        /\ \A i \in 1..Len(recs) : recs[i].slot = good[i].ts.slot
                                   /\ recs[i].val = Value(good[i].rd, cal[1], cal[2])
        /\ \A i \in 1..Len(Consumed(rows)) : Consumed(rows)[i].nf = rows[1].nf
=============================================================================
