CONSTANTS WeekLen = 2  Accept = 1  RotTrigger = 3  CatchUpBound = 4  CapPct = 135
 Defects = @Defects@
 MaxNow = @MaxNow@  MaxReports = @MaxReports@
SPECIFICATION MCSpec
VIEW MCView
INVARIANTS StartAlwaysOK StillRegistrable RestartEquiv ArchiveContiguous
PROPERTIES ArchiveImmutable
CHECK_DEADLOCK FALSE
