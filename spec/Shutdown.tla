------------------------------ MODULE Shutdown ------------------------------
(***************************************************************************)
(* Shutdown of the server with TCP sync connections left open (C12).       *)
(* Close stops the listeners and waits for every handler thread; a handler *)
(* waits for the 4 request bytes.  The environment (clients) may send the  *)
(* rest, disconnect, or do nothing at all; only the server's own steps are *)
(* fair.  The repaired handler has a read deadline (Timeout); without it   *)
(* ("nodeadline") an idle connection keeps Close waiting forever.          *)
(***************************************************************************)
EXTENDS Integers, FiniteSets, TLC
CONSTANTS Conns, ShDefects
VARIABLES hs,       \* connection -> "none" | "reading0" | "reading2" (half sent) | "answering" | "done"
          closing, closed
vars == <<hs, closing, closed>>

Init == hs = [c \in Conns |-> "none"] /\ closing = FALSE /\ closed = FALSE

(* environment *)
Connect(c) == ~closing /\ hs[c] = "none" /\ hs' = [hs EXCEPT ![c] = "reading0"] /\ UNCHANGED <<closing, closed>>
SendHalf(c) == hs[c] = "reading0" /\ hs' = [hs EXCEPT ![c] = "reading2"] /\ UNCHANGED <<closing, closed>>
SendRest(c) == hs[c] \in {"reading0", "reading2"} /\ hs' = [hs EXCEPT ![c] = "answering"] /\ UNCHANGED <<closing, closed>>
Disconnect(c) == hs[c] \in {"reading0", "reading2"} /\ hs' = [hs EXCEPT ![c] = "done"] /\ UNCHANGED <<closing, closed>>
(* server *)
Answer(c) == hs[c] = "answering" /\ hs' = [hs EXCEPT ![c] = "done"] /\ UNCHANGED <<closing, closed>>
Timeout(c) == "nodeadline" \notin ShDefects /\ hs[c] \in {"reading0", "reading2"}
              /\ hs' = [hs EXCEPT ![c] = "done"] /\ UNCHANGED <<closing, closed>>
CloseBegin == ~closing /\ closing' = TRUE /\ UNCHANGED <<hs, closed>>
CloseEnd == closing /\ ~closed /\ (\A c \in Conns : hs[c] \in {"none", "done"}) /\ closed' = TRUE /\ UNCHANGED <<hs, closing>>

Env == \E c \in Conns : Connect(c) \/ SendHalf(c) \/ SendRest(c) \/ Disconnect(c)
Srv == (\E c \in Conns : Answer(c) \/ Timeout(c)) \/ CloseBegin \/ CloseEnd
Next == Env \/ Srv
Spec == Init /\ [][Next]_vars
        /\ \A c \in Conns : WF_vars(Answer(c)) /\ WF_vars(Timeout(c))
        /\ WF_vars(CloseEnd)

BoundedShutdown == closing ~> closed
=============================================================================
