CONSTANTS WeekLen = 2016  Accept = 432  RotTrigger = 3200  CatchUpBound = 4000  CapPct = 135
 Defects = {}
 Strict = {"RecvReport", "UDPPairing", "Start", "Close"}
 InvSel = {"SlotIsFunctionOfSet", "IndexInBounds", "BanSticky", "RestartEquiv"}
 DiagLine = @DiagLine@
SPECIFICATION TSpec
POSTCONDITION Accepted
CHECK_DEADLOCK FALSE
