------------------------------ MODULE Timeslot ------------------------------
(***************************************************************************)
(* Timeslot arithmetic of package glow and the acceptance-window           *)
(* comparison of the report handler, parametric in the machine word (2^W   *)
(* values) and the slot length, so that the same definitions are checked   *)
(* exhaustively over a toy word by TLC and at the real constants           *)
(* (Word = 2^32, SlotLen = 300) by Apalache over unbounded integers.       *)
(***************************************************************************)
EXTENDS Integers

CONSTANTS
  \* @type: Int;
  Word,      \* 2^32: number of values of the unsigned word
  \* @type: Int;
  SlotLen,   \* 300 seconds
  \* @type: Int;
  Genesis,   \* unix time of timeslot 0
  \* @type: Int;
  AcceptW,   \* 432
  \* @type: Set(Str);
  TDefects

Err == -1

(* glow.UnixToTimeslot: uint32(time - Genesis) / SlotLen, refusing times    *)
(* before genesis                                                          *)
UnixToSlot(t) == IF t < Genesis THEN Err ELSE ((t - Genesis) % Word) \div SlotLen

(* glow.TimeslotToUnix: Genesis + int64(timeslot * SlotLen), the product in *)
(* the unsigned word                                                       *)
SlotToUnix(s) == Genesis + ((s * SlotLen) % Word)

(* largest timeslot whose start time is computed without overflow *)
MaxExactSlot == (Word - 1) \div SlotLen

(* the mathematically correct acceptance window *)
InWindowMath(now, ts) == ts >= now - AcceptW /\ ts <= now + AcceptW

(* the implementation: operands widened to 64 bits before the comparison;   *)
(* the deviation "u32window" compares in the unsigned word instead          *)
InWindowImpl(now, ts) ==
  IF "u32window" \in TDefects
  THEN ~(ts < (now - AcceptW) % Word \/ ts > (now + AcceptW) % Word)
  ELSE ~(ts < now - AcceptW \/ ts > now + AcceptW)

RoundTrip(t) ==
  t >= Genesis /\ t < Genesis + Word =>
    SlotToUnix(UnixToSlot(t)) = t - ((t - Genesis) % SlotLen)
Monotone(t1, t2) ==
  (t1 >= Genesis /\ t1 <= t2 /\ t2 < Genesis + Word) => UnixToSlot(t1) <= UnixToSlot(t2)
BeforeGenesisRefused(t) == t < Genesis => UnixToSlot(t) = Err
ExactBelowBound(s) == (s >= 0 /\ s <= MaxExactSlot) => SlotToUnix(s) = Genesis + s * SlotLen
WindowCorrect(now, ts) == InWindowImpl(now, ts) = InWindowMath(now, ts)

(* the production cadence keeps the window ahead of every acceptable report *)
CadenceSafe(trigger, period, window) == trigger + period + AcceptW < window
=============================================================================
